#!/bin/sh
# Offline setup: parse every specification, import the harness. Nothing is fetched.
set -e
cd "$(dirname "$0")"
mkdir -p build evidence
for f in spec/*.tla; do
  case "$f" in *MC_*) continue;; esac
  out=$(cd spec && tla-sany "$(basename "$f")" 2>&1) || { echo "$out"; echo "SANY failed on $f"; exit 1; }
  echo "$out" | grep -q "Semantic processing of module $(basename "$f" .tla)" || { echo "$out"; echo "SANY failed on $f"; exit 1; }
done
PYTHONPATH=. /venv/bin/python -c "import harness.core, harness.registry; print('harness ok')"
