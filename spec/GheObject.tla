----------------------------- MODULE GheObject -----------------------------
(***************************************************************************)
(* One GHE object (ground_heat_exchangers.py) as cells that survive        *)
(* between calls: the height H, the g-function family, the time axis left  *)
(* by the previous simulate, and what hp_eft describes.                    *)
(* SimIsFunctionOfArgs: the axis a simulate uses is that of its own method *)
(* and the height/g-function it sees are the current ones, whatever        *)
(* happened before.                                                        *)
(***************************************************************************)
EXTENDS Integers, Sequences, FiniteSets, TLC, Json

CONSTANTS Heights,    \* heights SetH may store (inside the sizing window)
          MaxLen,
          Fixed       \* {"F6"} : simulate(HOURLY) rebuilds its time axis

VARIABLES H, gf, times, hpSrc, hist, usedAxis
vars == <<H, gf, times, hpSrc, hist, usedAxis>>

Init == H = "nominal" /\ gf = "single" /\ times = "empty" /\ hpSrc = <<>> /\ hist = <<>> /\ usedAxis = "none"

Bound == Len(hist) < MaxLen

SimHybrid == /\ Bound
             /\ times' = "hybrid" /\ usedAxis' = "hybrid"
             /\ hpSrc' = <<"hybrid", H, gf, "hybrid">>
             /\ hist' = Append(hist, <<"sim_hybrid">>)
             /\ UNCHANGED <<H, gf>>

\* unrepaired: "if len(self.times) == 0: self.times = arange(...)" - the axis of an earlier hybrid run is re-used
SimHourly == /\ Bound
             /\ LET ax == IF "F6" \in Fixed \/ times = "empty" THEN "hourly" ELSE times IN
                /\ times' = ax /\ usedAxis' = ax
                /\ hpSrc' = <<"hourly", H, gf, ax>>
             /\ hist' = Append(hist, <<"sim_hourly">>)
             /\ UNCHANGED <<H, gf>>

\* size(HYBRID): the sized height is a function of (gf) only (fixed initial guess and bounds); ends with a simulate there
SizeHybrid == /\ Bound
              /\ H' = <<"root", gf>> /\ times' = "hybrid" /\ usedAxis' = "hybrid"
              /\ hpSrc' = <<"hybrid", <<"root", gf>>, gf, "hybrid">>
              /\ hist' = Append(hist, <<"size_hybrid">>)
              /\ UNCHANGED gf

ComputeG == /\ Bound /\ gf' = "triple" /\ hist' = Append(hist, <<"compute_g">>)
            /\ UNCHANGED <<H, times, hpSrc, usedAxis>>

SetH(h) == /\ Bound /\ H' = h /\ hist' = Append(hist, <<"set_h", h>>)
           /\ UNCHANGED <<gf, times, hpSrc, usedAxis>>

Next == SimHybrid \/ SimHourly \/ SizeHybrid \/ ComputeG \/ \E h \in Heights : SetH(h)
Spec == Init /\ [][Next]_vars

LastIsSim == Len(hist) > 0 /\ hist[Len(hist)][1] \in {"sim_hybrid", "sim_hourly", "size_hybrid"}
\* C13 : the axis used by a simulate is that of its own method
SimIsFunctionOfArgs ==
  LastIsSim => /\ (hist[Len(hist)][1] = "sim_hourly" => usedAxis = "hourly")
               /\ (hist[Len(hist)][1] # "sim_hourly" => usedAxis = "hybrid")
Known_F6 == LastIsSim /\ hist[Len(hist)][1] = "sim_hourly" /\ usedAxis = "hybrid"

\* the replay: expected abstract cells after every history; results are compared with a fresh object's for (method, H, gf)
Emit == LastIsSim => PrintT(ToJson([hist |-> hist, H |-> H, gf |-> gf, axis |-> usedAxis, hp |-> hpSrc]))
=============================================================================
