----------------------------- MODULE GheObject -----------------------------
(***************************************************************************)
(* One GHE object (ground_heat_exchangers.py) as cells that survive        *)
(* between calls: the height H, the g-function family and the              *)
(* interpolation table cached inside the g-function OBJECT, the time axis  *)
(* left by the previous simulate, and what hp_eft describes.               *)
(* SimIsFunctionOfArgs: the axis a simulate uses is that of its own method *)
(* and the height / g-function it sees are the current ones, whatever      *)
(* happened before.                                                        *)
(*                                                                         *)
(* How the object was built is part of the state (variant):                *)
(*   "plain"  - one stored curve, computed for the exchanger's own radius  *)
(*   "radius" - one stored curve computed for ANOTHER borehole radius:     *)
(*              every grab applies the radius correction to it             *)
(*   "family" - a two-height family: grabs interpolate and cache a table   *)
(***************************************************************************)
EXTENDS Integers, Sequences, FiniteSets, TLC, Json

CONSTANTS Heights,    \* heights SetH may store (inside the sizing window)
          MaxLen,
          Variants,   \* subset of {"plain", "radius", "family"}
          Fixed       \* {"F6"} : simulate(HOURLY) rebuilds its time axis

VARIABLES variant, H, gf, table, times, hpSrc, hist, usedAxis, hourlySizes
vars == <<variant, H, gf, table, times, hpSrc, hist, usedAxis, hourlySizes>>

Init == /\ variant \in Variants
        /\ H = "nominal" /\ gf = (IF variant = "family" THEN "double" ELSE "single")
        /\ table = "none"                 \* the interpolation table cached in the g-function object: none | the family it was built from
        /\ times = "empty" /\ hpSrc = <<>> /\ hist = <<>> /\ usedAxis = "none" /\ hourlySizes = 0

Bound == Len(hist) < MaxLen
\* a grab with a multi-height family builds the table once and keeps it in the g-function object
Grab == IF gf = "single" THEN table ELSE (IF table = "none" THEN gf ELSE table)

SimHybrid == /\ Bound
             /\ times' = "hybrid" /\ usedAxis' = "hybrid" /\ table' = Grab
             /\ hpSrc' = <<"hybrid", H, gf, "hybrid">>
             /\ hist' = Append(hist, <<"sim_hybrid">>)
             /\ UNCHANGED <<variant, H, gf, hourlySizes>>

\* unrepaired: "if len(self.times) == 0: self.times = arange(...)" - the axis of an earlier hybrid run is re-used
SimHourly == /\ Bound
             /\ LET ax == IF "F6" \in Fixed \/ times = "empty" THEN "hourly" ELSE times IN
                /\ times' = ax /\ usedAxis' = ax
                /\ hpSrc' = <<"hourly", H, gf, ax>>
             /\ table' = Grab
             /\ hist' = Append(hist, <<"sim_hourly">>)
             /\ UNCHANGED <<variant, H, gf, hourlySizes>>

\* size(method): the sized height is a function of (gf, method) only (fixed initial guess and bounds); ends with a simulate there
SizeHybrid == /\ Bound
              /\ H' = <<"root", gf>> /\ times' = "hybrid" /\ usedAxis' = "hybrid" /\ table' = Grab
              /\ hpSrc' = <<"hybrid", <<"root", gf>>, gf, "hybrid">>
              /\ hist' = Append(hist, <<"size_hybrid">>)
              /\ UNCHANGED <<variant, gf, hourlySizes>>
SizeHourly == /\ Bound /\ hourlySizes < 1          \* expensive on the real object: at most one per history
              /\ H' = <<"root_hourly", gf>> /\ times' = "hourly" /\ usedAxis' = "hourly" /\ table' = Grab
              /\ hpSrc' = <<"hourly", <<"root_hourly", gf>>, gf, "hourly">>
              /\ hist' = Append(hist, <<"size_hourly">>) /\ hourlySizes' = hourlySizes + 1
              /\ UNCHANGED <<variant, gf>>

\* compute_g_functions stores a NEW g-function object (three heights): nothing cached in the old object survives
ComputeG == /\ Bound /\ gf' = "triple" /\ table' = "none" /\ hist' = Append(hist, <<"compute_g">>)
            /\ UNCHANGED <<variant, H, times, hpSrc, usedAxis, hourlySizes>>

SetH(h) == /\ Bound /\ H' = h /\ hist' = Append(hist, <<"set_h", h>>)
           /\ UNCHANGED <<variant, gf, table, times, hpSrc, usedAxis, hourlySizes>>

Next == SimHybrid \/ SimHourly \/ SizeHybrid \/ SizeHourly \/ ComputeG \/ \E h \in Heights : SetH(h)
Spec == Init /\ [][Next]_vars

Sims == {"sim_hybrid", "sim_hourly", "size_hybrid", "size_hourly"}
LastIsSim == Len(hist) > 0 /\ hist[Len(hist)][1] \in Sims
\* C13 : the axis used by a simulate is that of its own method
SimIsFunctionOfArgs ==
  LastIsSim => /\ (hist[Len(hist)][1] \in {"sim_hourly", "size_hourly"} => usedAxis = "hourly")
               /\ (hist[Len(hist)][1] \in {"sim_hybrid", "size_hybrid"} => usedAxis = "hybrid")
\* C13 : a cached interpolation table always belongs to the family the object holds now
TableMatchesFamily == table \in {"none", gf}
Known_F6 == LastIsSim /\ hist[Len(hist)][1] = "sim_hourly" /\ usedAxis = "hybrid"

\* the replay: expected abstract cells after every history; results are compared with a fresh object's for (variant, method, H, gf)
Emit == LastIsSim => PrintT(ToJson([variant |-> variant, hist |-> hist, H |-> H, gf |-> gf, axis |-> usedAxis, hp |-> hpSrc]))
=============================================================================
