---------------------------- MODULE SystemTrace ----------------------------
(***************************************************************************)
(* Batch validation of recorded REAL design runs (real physics, real       *)
(* GHEManager.find_design, real output files) - binding B2.                *)
(* A trace is: Configure, Eval*, Sized*, Outcome, [Final, Report], End.    *)
(* Real-valued observations are scaled integers with the unit in the field *)
(* name (_uK micro-kelvin, _mm millimetres, _dmLps 1e-4 litres per second,    *)
(* _mgps milligrams per second, _gL grams per litre).                      *)
(* The state machine replays the run (the order of the phases is part of   *)
(* the acceptance) and accumulates the names of the clauses that fail; one *)
(* verdict line per trace:  <<"VERDICT", tid, {failed clauses}>>           *)
(***************************************************************************)
EXTENDS Integers, Sequences, FiniteSets, TLC, Json, IOUtils

Traces == JsonDeserialize(IOEnv.TRACE_FILE)

VARIABLES tid, l, phase, cfg, evals, sized, outc, fin, fails
vars == <<tid, l, phase, cfg, evals, sized, outc, fin, fails>>

Ev == Traces[tid][l]
Abs(x) == IF x < 0 THEN -x ELSE x
MaxI(a, b) == IF a > b THEN a ELSE b
Tol == 1000                      \* the sizing tolerance of the properties: 1e-3 K in micro-kelvin
None == <<>>

Fresh == /\ phase' = "start" /\ cfg' = None /\ evals' = <<>> /\ sized' = <<>> /\ outc' = None /\ fin' = None /\ fails' = {}
Init == tid = 1 /\ l = 1 /\ phase = "start" /\ cfg = None /\ evals = <<>> /\ sized = <<>> /\ outc = None /\ fin = None /\ fails = {}

Add(cond, name) == IF cond THEN fails ELSE fails \cup {name}
AddAll(S) == fails \cup S

TConfigure == /\ Ev.e = "Configure" /\ phase = "start"
              /\ cfg' = Ev /\ phase' = "search" /\ l' = l + 1
              /\ UNCHANGED <<tid, evals, sized, outc, fin, fails>>

\* C20 : what the search hands to the field object and to the g-function computation
\* flows in 1e-4 L/s (_dmLps), mass flow in mg/s, density in g/L (rounded: 0.1 % tolerance on the mass flow)
FlowOK(e) ==
  LET total == (cfg.V_dmLps * e.rho_gL) \div 10          \* mg/s carried by a volumetric flow of V
      tolm == (total \div 1000) + 2
  IN IF cfg.flow = "BOREHOLE"
     THEN Abs(e.vsys_dmLps - cfg.V_dmLps * e.n) <= e.n /\ Abs(e.m_mgps - total) <= tolm
     ELSE Abs(e.vsys_dmLps - cfg.V_dmLps) <= 1 /\ Abs(e.m_mgps * e.n - total) <= tolm + 2 * e.n
\* C12 : every search-log row satisfies excess = max(maxEFT - upper, lower - minEFT)
Clipped(x) == Abs(x) >= 1900000000
RowOK(e) == Clipped(e.ex_uK) \/ Clipped(e.max_uK) \/ Clipped(e.min_uK)
            \/ Abs(e.ex_uK - MaxI(e.max_uK - cfg.maxAllow_uK, cfg.minAllow_uK - e.min_uK)) <= 2

TEval == /\ Ev.e = "Eval" /\ phase \in {"search", "sizing"}
         /\ evals' = Append(evals, Ev)
         /\ fails' = AddAll((IF FlowOK(Ev) THEN {} ELSE {"C20.FlowSplit"}) \cup (IF RowOK(Ev) THEN {} ELSE {"C12.LogRowConsistent"}))
         /\ phase' = "search" /\ l' = l + 1 /\ UNCHANGED <<tid, cfg, sized, outc, fin>>

TSized == /\ Ev.e = "Sized" /\ phase \in {"search", "sizing"}
          /\ sized' = Append(sized, Ev)
          /\ LET same == {i \in 1..Len(evals) : evals[i].n = Ev.n /\ evals[i].H_mm = cfg.Hmax_mm}
                 \* the modelling assumption of Search.tla: the excess the search saw at maximum height (single-height g-function) is what
                 \* sizing sees there (three-height family) - compared on the most recent evaluation of a field of that size
                 agrees == same = {} \/ Ev.oc = "none" \/ Abs(Ev.hi_uK - evals[CHOOSE i \in same : \A j \in same : j <= i].ex_uK) <= Tol
             IN fails' = AddAll((IF cfg.Hmin_mm <= Ev.H_mm /\ Ev.H_mm <= cfg.Hmax_mm THEN {} ELSE {"C02.HeightInBounds"})
                                \cup (IF agrees THEN {} ELSE {"assume.SizingAgreesAtHmax"}))
          /\ phase' = "sizing" /\ l' = l + 1 /\ UNCHANGED <<tid, cfg, evals, outc, fin>>

AllPositive == Len(evals) > 0 /\ \A i \in 1..Len(evals) : evals[i].ex_uK > 0
AllNegative == Len(evals) > 0 /\ \A i \in 1..Len(evals) : evals[i].ex_uK < 0

TOutcome == /\ Ev.e = "Outcome" /\ phase \in {"search", "sizing"}
            /\ outc' = Ev
            /\ fails' = AddAll(
                  (IF Ev.kind = "raise" /\ Ev.type # "ValueError" THEN {"C02.OnlyValueError"} ELSE {})
                  \cup (IF AllPositive /\ ~cfg.cont /\ ~(Ev.kind = "raise" /\ Ev.type = "ValueError") THEN {"C02.UnmetPolicy"} ELSE {})
                  \cup (IF AllPositive /\ cfg.cont /\ Ev.kind # "design" THEN {"C02.UnmetPolicy"} ELSE {}))
            /\ phase' = IF Ev.kind = "design" THEN "final" ELSE "end"
            /\ l' = l + 1 /\ UNCHANGED <<tid, cfg, evals, sized, fin>>

Bisection == cfg.method \in {"NEARSQUARE", "RECTANGLE", "BIRECTANGLE", "BIZONEDRECTANGLE", "BIRECTANGLECONSTRAINED"}
LastOc == IF Len(sized) = 0 THEN "none" ELSE sized[Len(sized)].oc
Excess(mx, mn) == MaxI(mx - cfg.maxAllow_uK, cfg.minAllow_uK - mn)

TFinal == /\ Ev.e = "Final" /\ phase = "final"
          /\ fin' = Ev
          /\ LET esc == outc.escape
                 ex == Excess(Ev.resim_max_uK, Ev.resim_min_uK)
             IN fails' = AddAll(
                  \* C01 : simulating the returned design stays within the limits (unless the continue-escape was used)
                  (IF ~esc /\ ex > Tol THEN {"C01.WithinLimits"} ELSE {})
                  \* C01 : ... over the REQUESTED horizon: the requested months of a simulation that runs one month longer (= resim beyond two years)
                  \cup (IF ~esc /\ Excess(Ev.ext_max_uK, Ev.ext_min_uK) > Tol THEN {"C01.WithinLimitsOverHorizon"} ELSE {})
                  \* C02
                  \cup (IF cfg.Hmin_mm <= Ev.H_mm /\ Ev.H_mm <= cfg.Hmax_mm THEN {} ELSE {"C02.HeightInBounds"})
                  \cup (IF cfg.cap > 0 /\ Bisection /\ Ev.n > cfg.cap
                        THEN (IF cfg.method = "BIZONEDRECTANGLE" THEN {"known:F16"} ELSE {"C02.CapRespected"}) ELSE {})
                  \cup (IF AllPositive /\ cfg.cont /\ Ev.H_mm # cfg.Hmax_mm THEN {"C02.UnmetPolicy"} ELSE {})
                  \cup (IF AllNegative /\ cfg.cont /\ Bisection /\ Ev.H_mm # cfg.Hmin_mm THEN {"C02.UnmetPolicy"} ELSE {})
                  \* C05 : a bracketed root meets the binding limit, it does not over-satisfy it
                  \cup (IF LastOc = "Bracketed" /\ Abs(ex) > Tol THEN {"C05.RootUnlessClamped"} ELSE {})
                  \cup (IF LastOc \in {"ClampLow"} /\ Ev.H_mm # cfg.Hmin_mm THEN {"C05.ClampIsAtBound"} ELSE {})
                  \cup (IF LastOc \in {"ClampHigh"} /\ Ev.H_mm # cfg.Hmax_mm THEN {"C05.ClampIsAtBound"} ELSE {})
                  \* C05 : never more drilling than an evaluated feasible candidate at maximum height
                  \cup (IF Bisection /\ ~esc /\ \E i \in 1..Len(evals) :
                              evals[i].H_mm = cfg.Hmax_mm /\ evals[i].ex_uK < 0 /\ Ev.n * (Ev.H_mm \div 10) > evals[i].n * (cfg.Hmax_mm \div 10) + Ev.n
                        THEN {"C05.NoLessDrillingEvaluated"} ELSE {})
                  \* C12 : the returned design is N boreholes SHARING the flow the user gave (SYSTEM) or each carrying it (BOREHOLE)
                  \cup (IF (IF cfg.flow = "SYSTEM" THEN Abs(Ev.mdot_mgps * Ev.n - cfg.flow_mgps) <= Ev.n + 1 ELSE Abs(Ev.mdot_mgps - cfg.flow_mgps) <= 1)
                        THEN {} ELSE {"C12.DesignFlowIsInputFlow"})
                  \* C12 : what the object reports is what simulating it gives
                  \cup (IF Abs(Ev.rep_max_uK - Ev.resim_max_uK) > Tol \/ Abs(Ev.rep_min_uK - Ev.resim_min_uK) > Tol THEN {"C12.ReportedIsSimulated"} ELSE {}))
          /\ phase' = "report" /\ l' = l + 1 /\ UNCHANGED <<tid, cfg, evals, sized, outc>>

TReport == /\ Ev.e = "Report" /\ phase = "report"
           /\ fails' = AddAll(
                  (IF Ev.rows = fin.n /\ Ev.nbh = fin.n THEN {} ELSE {"C12.CountIsRows"})
                  \cup (IF Abs(Ev.drilling_cm - fin.n * (fin.H_mm \div 10)) <= fin.n + 1 THEN {} ELSE {"C12.DrillingIsCountTimesHeight"})
                  \cup (IF Abs(Ev.sum_max_uK - fin.resim_max_uK) <= Tol /\ Abs(Ev.sum_min_uK - fin.resim_min_uK) <= Tol THEN {} ELSE {"C12.SummaryIsSimulated"})
                  \cup (IF Abs(Ev.sum_H_mm - fin.H_mm) <= 1 THEN {} ELSE {"C12.SummaryHeight"})
                  \* C12 : the reported design is N boreholes SHARING the flow the user gave (SYSTEM) or each carrying it (BOREHOLE)
                  \cup (IF (IF cfg.flow = "SYSTEM" THEN Abs(Ev.mdot_mgps * Ev.nbh - cfg.flow_mgps) <= Ev.nbh + 1 ELSE Abs(Ev.mdot_mgps - cfg.flow_mgps) <= 1)
                        THEN {} ELSE {"C12.ReportedFlowIsInputFlow"})
                  \cup (IF Ev.logrows = Len(evals) THEN {} ELSE {"C12.SearchLogComplete"}))
           /\ phase' = "end" /\ l' = l + 1 /\ UNCHANGED <<tid, cfg, evals, sized, outc, fin>>

TEnd == /\ Ev.e = "End"
        /\ PrintT(<<"VERDICT", tid, IF phase \in {"end", "report"} THEN fails ELSE fails \cup {"trace.incomplete:" \o phase}>>)
        /\ tid' = tid + 1 /\ l' = 1 /\ Fresh

TStuck == /\ Ev.e # "End"
          /\ ~(Ev.e = "Configure" /\ phase = "start") /\ ~(Ev.e \in {"Eval", "Sized", "Outcome"} /\ phase \in {"search", "sizing"})
          /\ ~(Ev.e = "Final" /\ phase = "final") /\ ~(Ev.e = "Report" /\ phase = "report")
          /\ PrintT(<<"VERDICT", tid, {"trace.rejected:" \o Ev.e \o "@" \o phase}>>)
          /\ tid' = tid + 1 /\ l' = 1 /\ Fresh

Next == tid <= Len(Traces) /\ (TConfigure \/ TEval \/ TSized \/ TOutcome \/ TFinal \/ TReport \/ TEnd \/ TStuck)
Spec == Init /\ [][Next]_vars
=============================================================================
