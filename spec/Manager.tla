------------------------------ MODULE Manager ------------------------------
(***************************************************************************)
(* GHEManager as a state machine with object identity (manager.py,         *)
(* design.py): setters store a fresh object in a slot, set_design captures *)
(* REFERENCES to the objects in the slots at that moment, find_design runs *)
(* the captured design and overwrites the height of the captured borehole  *)
(* object.  TLC generates the API histories; the property is that the      *)
(* result of find_design is a function of the physical content of the      *)
(* captured snapshot only (not of the nominal borehole height, the order   *)
(* of the setters, earlier finds, rebuilt managers or unrelated runs).     *)
(***************************************************************************)
EXTENDS Integers, Sequences, FiniteSets, TLC, Json

CONSTANTS Slots,        \* e.g. {"fluid","grout","soil","pipe","bore","sim","loads","geom"}
          Vary,         \* slots that have two physical variants (others: one)
          MaxCalls,     \* bound on the history length
          MaxFinds

VARIABLES slots,     \* slot -> 0 (unset) | variant 1..2
          nominal,   \* nominal height variant given to set_borehole: 0 unset | 1 | 2   (NOT physical)
          boreH,     \* what the shared borehole object currently holds: "nominal" | "sized"
          design,    \* <<>> or the captured snapshot [slot -> variant]
          hist,      \* the call history
          finds,     \* sequence of [snap, histlen]
          other      \* number of unrelated runs executed in this process
vars == <<slots, nominal, boreH, design, hist, finds, other>>

Variants(s) == IF s \in Vary THEN {1, 2} ELSE {1}
AllSet == \A s \in Slots : slots[s] # 0

Init == /\ slots = [s \in Slots |-> 0] /\ nominal = 0 /\ boreH = "nominal" /\ design = <<>>
        /\ hist = <<>> /\ finds = <<>> /\ other = 0

\* exhaustive configuration: the history starts after a straight-line configuration (every slot set to variant 1, nominal height 1,
\* no design yet); TLC then enumerates EVERY continuation of at most MaxCalls calls
InitPreset == /\ slots = [s \in Slots |-> 1] /\ nominal = 1 /\ boreH = "nominal" /\ design = <<>>
              /\ hist = <<>> /\ finds = <<>> /\ other = 0

Bound == Len(hist) < MaxCalls

Set(s, v) == /\ Bound /\ s # "bore" /\ v \in Variants(s)
             /\ (slots[s] # v \/ (design # <<>> /\ Len(finds) > 0))     \* no idle repetition before the first find
             /\ slots' = [slots EXCEPT ![s] = v]
             /\ hist' = Append(hist, <<"set", s, v>>)
             /\ UNCHANGED <<nominal, boreH, design, finds, other>>

\* set_borehole(height = nominal height, ...) : a NEW borehole object; the nominal height is not a physical input
SetBore(v, n) == /\ Bound /\ v \in Variants("bore") /\ n \in {1, 2}
                 /\ slots' = [slots EXCEPT !["bore"] = v] /\ nominal' = n /\ boreH' = "nominal"
                 /\ hist' = Append(hist, <<"set", "bore", v, n>>)
                 /\ UNCHANGED <<design, finds, other>>

\* set_design : requires the geometry (otherwise AttributeError - modelled as not enabled); captures the slots
SetDesign == /\ Bound /\ slots["geom"] # 0 /\ AllSet /\ design # slots
             /\ design' = slots
             /\ hist' = Append(hist, <<"set_design">>)
             /\ UNCHANGED <<slots, nominal, boreH, finds, other>>

\* find_design : everything set and a design; runs on the CAPTURED snapshot (setters called after set_design are not seen)
FindDesign == /\ Bound /\ AllSet /\ design # <<>> /\ \A s \in Slots : design[s] # 0
              /\ Len(finds) < MaxFinds
              /\ finds' = Append(finds, [snap |-> design, at |-> Len(hist) + 1])
              /\ boreH' = "sized"
              /\ hist' = Append(hist, <<"find">>)
              /\ UNCHANGED <<slots, nominal, design, other>>

\* a fresh manager for the same process (rebuild) keeps nothing
Rebuild == /\ Bound /\ Len(finds) > 0 /\ Len(hist) > 0 /\ hist[Len(hist)][1] = "find"
           /\ slots' = [s \in Slots |-> 0] /\ nominal' = 0 /\ boreH' = "nominal" /\ design' = <<>>
           /\ hist' = Append(hist, <<"rebuild">>)
           /\ UNCHANGED <<finds, other>>

\* an unrelated configuration run to completion on another manager in the same process
OtherRun == /\ Bound /\ other < 1
            /\ other' = other + 1 /\ hist' = Append(hist, <<"other_run">>)
            /\ UNCHANGED <<slots, nominal, boreH, design, finds>>

Next == \/ \E s \in Slots, v \in {1, 2} : Set(s, v)
        \/ \E v \in {1, 2}, n \in {1, 2} : SetBore(v, n)
        \/ SetDesign \/ FindDesign \/ Rebuild \/ OtherRun
Spec == Init /\ [][Next]_vars

\* the abstract result: a function of the physical snapshot only - by construction of the model.
Result(snap) == snap
ResultDependsOnPhysOnly ==
  \A i, j \in 1..Len(finds) : finds[i].snap = finds[j].snap => Result(finds[i].snap) = Result(finds[j].snap)

\* one line per history that ends in a find (the replay executes it and compares results inside each snapshot class)
Emit == (Len(hist) > 0 /\ hist[Len(hist)][1] = "find") => PrintT(ToJson([hist |-> hist, finds |-> finds]))
=============================================================================
