------------------------------- MODULE GJoin -------------------------------
(***************************************************************************)
(* BaseGHE.combine_sts_lts (joining the short-time response to the long-   *)
(* time g-function on the ln(t/ts) axis) and the decision table / cache of *)
(* GFunction.g_function_interpolation, over integer axes.                  *)
(***************************************************************************)
EXTENDS Integers, Sequences, FiniteSets, TLC, Json

CONSTANTS MaxS, MaxL, AxisMax    \* short axis 1..MaxS points, long axis 2..MaxL points, values in 0..AxisMax

VARIABLES sax, lax, phase
vars == <<sax, lax, phase>>

SeqMax(s) == s[Len(s)]       \* axes are strictly increasing
SeqMin(s) == s[1]

\* values carried on the axes: short-time value at x is 100 + x, long-time value at x is 200 + x (distinguishable)
SV(x) == 100 + x
LV(x) == 200 + x

\* the code's walk: i = 0; value = sts[0]; while value <= min_lts: i += 1; value = sts[i]   (IndexError when it runs off)
RECURSIVE Walk(_, _, _)
Walk(s, i, lim) == IF i > Len(s) THEN 0            \* ran off the end
                   ELSE IF s[i] <= lim THEN Walk(s, i + 1, lim) ELSE i
Combine(s, l) ==
  IF SeqMax(s) < SeqMin(l)
  THEN [ok |-> TRUE, x |-> s \o l, y |-> [k \in 1..Len(s) |-> SV(s[k])] \o [k \in 1..Len(l) |-> LV(l[k])]]
  ELSE LET i == Walk(s, 1, SeqMin(l)) IN
       IF i = 0 THEN [ok |-> FALSE, x |-> <<>>, y |-> <<>>]        \* IndexError: every short-time point is <= the first long-time point
       ELSE [ok |-> TRUE, x |-> SubSeq(s, 1, i - 1) \o l,
             y |-> [k \in 1..(i - 1) |-> SV(s[k])] \o [k \in 1..Len(l) |-> LV(l[k])]]

StrictInc(s) == \A k \in 1..(Len(s) - 1) : s[k] < s[k + 1]

Init == sax = <<>> /\ lax = <<>> /\ phase = "short"
GrowS == /\ phase = "short" /\ Len(sax) < MaxS
         /\ \E v \in 0..AxisMax : (Len(sax) > 0 => v > sax[Len(sax)]) /\ sax' = Append(sax, v)
         /\ UNCHANGED <<lax, phase>>
ToLong == phase = "short" /\ Len(sax) >= 1 /\ phase' = "long" /\ UNCHANGED <<sax, lax>>
GrowL == /\ phase = "long" /\ Len(lax) < MaxL
         /\ \E v \in 0..AxisMax : (Len(lax) > 0 => v > lax[Len(lax)]) /\ lax' = Append(lax, v)
         /\ UNCHANGED <<sax, phase>>
Join == phase = "long" /\ Len(lax) >= 2 /\ phase' = "joined" /\ UNCHANGED <<sax, lax>>
Next == GrowS \/ ToLong \/ GrowL \/ Join
Spec == Init /\ [][Next]_vars

J == Combine(sax, lax)
Joined == phase = "joined"
\* C11
AxisStrictlyIncreasing == (Joined /\ J.ok) => StrictInc(J.x)
LtsReproduced == (Joined /\ J.ok) => \A k \in 1..Len(lax) : J.x[Len(J.x) - Len(lax) + k] = lax[k] /\ J.y[Len(J.x) - Len(lax) + k] = LV(lax[k])
StsBeforeOnly == (Joined /\ J.ok) => \A k \in 1..(Len(J.x) - Len(lax)) : J.x[k] < SeqMin(lax) /\ J.y[k] = SV(J.x[k]) /\ J.x[k] = sax[k]
AllStsBeforeKept == (Joined /\ J.ok) => \A k \in 1..Len(sax) : sax[k] < SeqMin(lax) => k <= Len(J.x) - Len(lax)
\* the join only fails when the short axis ends exactly on (or below, never reached) the first long point without passing it
FailsOnlyOnTouch == (Joined /\ ~J.ok) => SeqMax(sax) = SeqMin(lax)

\* F17: a short-time point that coincides EXACTLY with the first long-time point is kept (the walk tests "<="), so the
\* joined axis holds that abscissa twice; if it is the last short-time point the walk runs off the end (IndexError)
Known_F17 == Joined /\ \E k \in 1..Len(sax) : sax[k] = SeqMin(lax)
AxisStrictlyIncreasingK == AxisStrictlyIncreasing \/ Known_F17
StsBeforeOnlyK == StsBeforeOnly \/ Known_F17
F17Present == ~(Known_F17 /\ ~AxisStrictlyIncreasing)

\* ---- g_function_interpolation: interpolation kind by number of stored curves ------------------------------------
InterpKind(n) == IF n >= 5 THEN "cubic" ELSE IF n >= 3 THEN "quadratic" ELSE IF n = 2 THEN "linear" ELSE "stored"

Emit == Joined => PrintT(ToJson([s |-> sax, l |-> lax, ok |-> J.ok, x |-> J.x, y |-> J.y]))
=============================================================================
