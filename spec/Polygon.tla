------------------------------ MODULE Polygon ------------------------------
(***************************************************************************)
(* Point-in-polygon classification (shape.point_polygon_check) and the     *)
(* land-constraint filter built on it (feature_recognition.remove_cutout,  *)
(* domains.polygonal_land_constraint).                                     *)
(*                                                                         *)
(* Everything is exact: vertices live on the even points of a doubled      *)
(* integer lattice 0..2*(L-1), test points on all points 0..2*(L-1) (the   *)
(* half-integer lattice of the property).  TLC builds every simple polygon *)
(* vertex by vertex (one canonical representative per rotation/reflection  *)
(* of the vertex sequence), classifies every test point by the crossing-   *)
(* number definition with the half-open vertex rule, checks it against an  *)
(* independent classification with a vertical ray, and prints the table    *)
(* the real code is replayed against.                                      *)
(***************************************************************************)
EXTENDS Integers, Sequences, FiniteSets, TLC, Json

CONSTANTS L,        \* lattice size (4 => vertices (0,2,4,6)^2)
          MaxV,     \* maximum number of vertices
          NoGos,    \* set of LISTS of no-go polygons (sequences of sequences of vertices) for the land-constraint part; <<>> = none
          Extras    \* set of LISTS of further property outlines given after the built one; <<>> = a single outline

VARIABLES poly, closed, nogo, extra
vars == <<poly, closed, nogo, extra>>

Coord == {2 * k : k \in 0..(L - 1)}
Vertices == Coord \X Coord
TestPts == (0..(2 * (L - 1))) \X (0..(2 * (L - 1)))

Cross(a, b, p) == (b[1] - a[1]) * (p[2] - a[2]) - (b[2] - a[2]) * (p[1] - a[1])
Min(x, y) == IF x < y THEN x ELSE y
Max(x, y) == IF x > y THEN x ELSE y
InBox(a, b, p) == /\ Min(a[1], b[1]) <= p[1] /\ p[1] <= Max(a[1], b[1])
                  /\ Min(a[2], b[2]) <= p[2] /\ p[2] <= Max(a[2], b[2])
OnSegment(a, b, p) == Cross(a, b, p) = 0 /\ InBox(a, b, p)

Sgn(x) == IF x > 0 THEN 1 ELSE IF x < 0 THEN -1 ELSE 0
\* closed segments ab and cd share a point
SegsTouch(a, b, c, d) ==
  LET d1 == Sgn(Cross(a, b, c))  d2 == Sgn(Cross(a, b, d))
      d3 == Sgn(Cross(c, d, a))  d4 == Sgn(Cross(c, d, b))
  IN \/ (d1 * d2 < 0 /\ d3 * d4 < 0)
     \/ OnSegment(a, b, c) \/ OnSegment(a, b, d) \/ OnSegment(c, d, a) \/ OnSegment(c, d, b)

Edge(q, k) == <<q[k], q[IF k = Len(q) THEN 1 ELSE k + 1]>>      \* k-th edge of the closed polygon q
Edges(q) == {Edge(q, k) : k \in 1..Len(q)}

\* ---- the two exact classifications ---------------------------------------------------------
OnBoundary(q, p) == \E e \in Edges(q) : OnSegment(e[1], e[2], p)

\* horizontal ray to +x, half-open rule: an edge counts when a.y <= p.y < b.y (upward) or b.y <= p.y < a.y (downward)
CrossH(q, p) == Cardinality({k \in 1..Len(q) :
                   LET a == Edge(q, k)[1]  b == Edge(q, k)[2] IN
                   \/ (a[2] <= p[2] /\ p[2] < b[2] /\ Cross(a, b, p) > 0)
                   \/ (b[2] <= p[2] /\ p[2] < a[2] /\ Cross(a, b, p) < 0)})
\* vertical ray to +y (independent set of crossed edges)
CrossV(q, p) == Cardinality({k \in 1..Len(q) :
                   LET a == Edge(q, k)[1]  b == Edge(q, k)[2] IN
                   \/ (a[1] <= p[1] /\ p[1] < b[1] /\ Cross(a, b, p) < 0)
                   \/ (b[1] <= p[1] /\ p[1] < a[1] /\ Cross(a, b, p) > 0)})

\* 1 inside, 0 on edge, -1 outside  (the return convention of point_polygon_check)
Class(q, p)  == IF OnBoundary(q, p) THEN 0 ELSE IF CrossH(q, p) % 2 = 1 THEN 1 ELSE -1
ClassV(q, p) == IF OnBoundary(q, p) THEN 0 ELSE IF CrossV(q, p) % 2 = 1 THEN 1 ELSE -1

\* ---- building simple polygons ------------------------------------------------------------
Less(a, b) == a[1] < b[1] \/ (a[1] = b[1] /\ a[2] < b[2])
\* may vertex v be appended to the open chain q ?
CanAppend(q, v) ==
  /\ \A k \in 1..Len(q) : q[k] # v
  /\ Less(q[1], v)                                            \* canonical: first vertex is the smallest
  /\ Len(q) >= 2 =>
       /\ \A k \in 1..(Len(q) - 2) : ~SegsTouch(q[k], q[k + 1], q[Len(q)], v)
       \* no U-turn onto the previous edge
       /\ ~(Cross(q[Len(q) - 1], q[Len(q)], v) = 0 /\ OnSegment(q[Len(q)], v, q[Len(q) - 1]))
       /\ ~(Cross(q[Len(q) - 1], q[Len(q)], v) = 0 /\ OnSegment(q[Len(q) - 1], q[Len(q)], v))

Area2(q) == LET RECURSIVE S(_) S(k) == IF k = 0 THEN 0 ELSE q[k][1] * Edge(q, k)[2][2] - Edge(q, k)[2][1] * q[k][2] + S(k - 1) IN S(Len(q))

CanClose(q) ==
  /\ Len(q) >= 3
  /\ Less(q[2], q[Len(q)])                                    \* canonical: fixes the direction of traversal
  /\ \A k \in 2..(Len(q) - 2) : ~SegsTouch(q[k], q[k + 1], q[Len(q)], q[1])
  /\ ~OnSegment(q[Len(q)], q[1], q[2]) /\ ~OnSegment(q[Len(q)], q[1], q[Len(q) - 1])
  /\ ~OnSegment(q[1], q[2], q[Len(q)]) /\ ~OnSegment(q[Len(q) - 1], q[Len(q)], q[1])
  /\ Area2(q) # 0

Init == poly = <<>> /\ closed = FALSE /\ nogo = <<>> /\ extra = <<>>
Start == poly = <<>> /\ \E v \in Vertices : poly' = <<v>> /\ UNCHANGED <<closed, nogo, extra>>
Second == Len(poly) = 1 /\ \E v \in Vertices : Less(poly[1], v) /\ poly' = Append(poly, v) /\ UNCHANGED <<closed, nogo, extra>>
Add == /\ ~closed /\ Len(poly) >= 2 /\ Len(poly) < MaxV
       /\ \E v \in Vertices : CanAppend(poly, v) /\ poly' = Append(poly, v)
       /\ UNCHANGED <<closed, nogo, extra>>
Close == /\ ~closed /\ CanClose(poly) /\ closed' = TRUE
         /\ \E g \in NoGos : nogo' = g
         /\ \E e \in Extras : extra' = e
         /\ UNCHANGED poly
Next == Start \/ Second \/ Add \/ Close
Spec == Init /\ [][Next]_vars

-----------------------------------------------------------------------------
\* C16 : the oracle guards itself - two independent rays agree on every test point of every simple polygon
RaysAgree == closed => \A p \in TestPts : Class(poly, p) = ClassV(poly, p)

\* simplicity of what was built (sanity of the builder)
BuiltSimple ==
  closed => \A j, k \in 1..Len(poly) :
              (j < k /\ k # j + 1 /\ ~(j = 1 /\ k = Len(poly))) => ~SegsTouch(Edge(poly, j)[1], Edge(poly, j)[2], Edge(poly, k)[1], Edge(poly, k)[2])

\* C04 : remove_cutout(property outlines, remove_inside = FALSE, keep_contour = TRUE) then
\*       remove_cutout(no-go zones, remove_inside = TRUE, keep_contour = FALSE); several outlines / zones are given at once:
\*       inside-or-on ANY property outline, and neither inside nor on the boundary of ANY zone (whatever its position in the list)
Props == <<poly>> \o extra
InSomeProp(p) == \E j \in 1..Len(Props) : Class(Props[j], p) \in {0, 1}
ClearInSomeProp(p) == \E j \in 1..Len(Props) : Class(Props[j], p) = 1
OffAllZones(p) == \A j \in 1..Len(nogo) : Class(nogo[j], p) = -1
Keep(p) == InSomeProp(p) /\ OffAllZones(p)
KeptInsideProperty == closed => \A p \in TestPts : Keep(p) => (InSomeProp(p) /\ OffAllZones(p))
NothingClearDropped == closed => \A p \in TestPts : (ClearInSomeProp(p) /\ OffAllZones(p)) => Keep(p)

\* the table for the replay: one character per test point in row-major order (x outer, y inner)
ClassRow(q) == [x \in 0..(2 * (L - 1)) |-> [y \in 0..(2 * (L - 1)) |-> Class(q, <<x, y>>)]]
KeepRow == [x \in 0..(2 * (L - 1)) |-> [y \in 0..(2 * (L - 1)) |-> IF Keep(<<x, y>>) THEN 1 ELSE 0]]
Emit == closed => PrintT(ToJson([poly |-> poly, nogo |-> nogo, extra |-> extra, cls |-> ClassRow(poly), keep |-> KeepRow]))
=============================================================================
