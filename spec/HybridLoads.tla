---------------------------- MODULE HybridLoads ----------------------------
(***************************************************************************)
(* HybridLoad.process_month_loads (ghedesigner/ground_loads.py) as a state  *)
(* machine: Replicate (month m+12 copies month m), Flags (peak retention   *)
(* in the first and last twelve months), then one step per month that      *)
(* appends <<kind, end>> segments exactly as the three branches of the     *)
(* code do.  find_peak_durations is represented by its decision (real      *)
(* duration vs the 1e-6 h placeholder).                                    *)
(*                                                                         *)
(* Time inside a month is an integer number of half micro-hours ("hu",     *)
(* 2 000 000 per hour) RELATIVE to the month start (previous month end),   *)
(* so a 744 h month fits 32-bit integers and the 1e-6 h placeholder (2 hu) *)
(* and its half (1 hu) are exact.  Loads are symbolic: AVG, +PKC, -PKH.    *)
(***************************************************************************)
EXTENDS Integers, Sequences, FiniteSets, TLC, Json

CONSTANTS
  Inputs,     \* set of month inputs [pkc, pkh : 0..1 (peak load zero / positive), dayC, dayH : 0-based peak day,
              \*                      dc, dh : peak durations in hu (even), wc, wh : BOOLEAN window of a zero-peak month sees load]
  Plain,      \* the input every other month of the year gets
  Horizons,   \* set of end_month values
  Leaps,      \* set of BOOLEAN: is the (single) load year a leap year? (every simulated year then has a 29-day February)
  Fixed       \* defects modelled as repaired: "F2", "F9"

VARIABLES M, slot, special, i, segs, done, prevEndOk, leap
vars == <<M, slot, special, i, segs, done, prevEndOk, leap>>

HU == 2000000            \* hu per hour
PH == 2                  \* the 1e-6 h placeholder duration
DaysRef == <<31, 28, 31, 30, 31, 30, 31, 31, 30, 31, 30, 31>>
Moy(m) == ((m - 1) % 12) + 1
Hours(m) == 24 * (IF leap /\ Moy(m) = 2 THEN 29 ELSE DaysRef[Moy(m)])
Len_hu(m) == Hours(m) * HU

\* ---- find_peak_durations, as far as process_month_loads can see it ------------------------
\* A month with zero load in one direction has its "peak" on day 0, so its 48-hour window reaches into the last day
\* of the previous month.  Unrepaired code: if that day has load (w = TRUE) the window maximum replaces the zero peak
\* and a real duration comes back although no pulse will be emitted (F9).
EffDur(pk, d, w) == IF pk > 0 THEN d
                    ELSE IF w /\ "F9" \notin Fixed THEN d ELSE PH
EffDay(pk, day) == IF pk > 0 THEN day ELSE 0

InputOf(m) == IF Moy(m) = slot THEN special ELSE Plain      \* Replicate: month m+12 copies month m

Ipf(m) == m < 13 \/ m > M - 12                              \* Flags

\* ---- one month of process_month_loads ------------------------------------------------------
\* all ends relative to the month start; the code's first_month_hour is 1-based: month start + 1 h
EDc(inp) == EffDur(inp.pkc, inp.dc, inp.wc)
EDh(inp) == EffDur(inp.pkh, inp.dh, inp.wh)
DayC(inp) == EffDay(inp.pkc, inp.dayC)
DayH(inp) == EffDay(inp.pkh, inp.dayH)
RawFirst(day, d) == HU + day * 24 * HU + 12 * HU - d \div 2
Clamped(inp, m) == m = 1 /\ (RawFirst(DayC(inp), EDc(inp)) < 0 \/ RawFirst(DayH(inp), EDh(inp)) < 0)

EmitOf(inp, m, ipf) ==
  LET pkc == inp.pkc   pkh == inp.pkh
      dc == EDc(inp)   dh == EDh(inp)
      dayC == DayC(inp)  dayH == DayH(inp)
      clampAbs(t) == IF m = 1 /\ t < 0 THEN PH ELSE t     \* "if first_hour_..._peak < 0.0: 1.0e-6" (absolute time)
      fhh == clampAbs(RawFirst(dayH, dh))
      lhh == clampAbs(fhh + dh)
      fhc == clampAbs(RawFirst(dayC, dc))
      lhc == clampAbs(fhc + dc)
      diff0 == IF ipf THEN dayC - dayH ELSE 0
      \* repaired (F2): with a single peak in the month there is nothing to keep apart: centred placement
      diff == IF "F2" \in Fixed /\ ipf /\ diff0 = 0 /\ ~(pkc > 0 /\ pkh > 0) THEN -1 ELSE diff0
      endm == Len_hu(m)
      cool == IF pkc > 0 /\ ipf THEN << <<"avg", fhc>>, <<"pkc", lhc>> >> ELSE <<>>
      heat == IF pkh > 0 /\ ipf THEN << <<"avg", fhh>>, <<"pkh", lhh>> >> ELSE <<>>
      rest == << <<"avg", endm>> >>
  IN
  IF diff < 0 THEN cool \o heat \o rest
  ELSE IF diff > 0 THEN heat \o cool \o rest
  ELSE IF ipf THEN
         (IF pkc > 0 THEN << <<"avg", fhc - dc \div 2>>, <<"pkc", lhc - dc \div 2>> >> ELSE <<>>)
      \o (IF pkh > 0 THEN << <<"pkh", lhh + dh \div 2>> >> ELSE <<>>)
      \o rest
  ELSE rest

Emit(m) == EmitOf(InputOf(m), m, Ipf(m))

MonthDuration(m) ==      \* what month_rate divides by
  LET inp == InputOf(m) IN
  IF Ipf(m) THEN Len_hu(m) - EDc(inp) - EDh(inp) ELSE Len_hu(m)

-----------------------------------------------------------------------------
Init == /\ M \in Horizons /\ slot \in 1..12 /\ special \in Inputs /\ leap \in Leaps
        /\ i = 0 /\ segs = <<>> /\ done = FALSE /\ prevEndOk = TRUE

Step == /\ ~done /\ i < M
        /\ i' = i + 1 /\ segs' = Emit(i + 1)
        /\ prevEndOk' = (i = 0 \/ segs[Len(segs)] = <<"avg", Len_hu(i)>>)
        /\ UNCHANGED <<M, slot, special, done, leap>>
Finish == /\ ~done /\ i = M /\ done' = TRUE /\ UNCHANGED <<M, slot, special, i, segs, prevEndOk, leap>>
Next == Step \/ Finish
Spec == Init /\ [][Next]_vars

-----------------------------------------------------------------------------
(* Derived quantities of the current month's segments                       *)
Start(k) == IF k = 1 THEN 0 ELSE segs[k - 1][2]
SegLen(k) == segs[k][2] - Start(k)                       \* signed
RECURSIVE SumKind(_, _)
SumKind(kind, k) == IF k = 0 THEN 0 ELSE (IF segs[k][1] = kind THEN SegLen(k) ELSE 0) + SumKind(kind, k - 1)
A  == SumKind("avg", Len(segs))
C  == SumKind("pkc", Len(segs))
Hh == SumKind("pkh", Len(segs))
Cur == InputOf(i)
Active == i >= 1 /\ ~done
RealC == Cur.pkc > 0 /\ Ipf(i)          \* a cooling pulse is due
RealH == Cur.pkh > 0 /\ Ipf(i)

\* C06 : the month's hybrid energy equals its input energy.  With load month_rate on AVG segments, +pkc / -pkh on
\* pulses and month_rate = (cl - hl - pkc*dc + pkh*dh) / MonthDuration this holds iff the segments tile the month,
\* every due pulse lasts exactly its duration, no other pulse exists, and the AVG time equals what month_rate divides by
\* (up to the placeholder durations of absent peaks: <= 2 * 1e-6 h, i.e. 4 hu).
Conserves ==
  Active =>
     /\ segs[Len(segs)] = <<"avg", Len_hu(i)>>
     /\ A + C + Hh = Len_hu(i)
     /\ C  = (IF RealC THEN Cur.dc ELSE 0)
     /\ Hh = (IF RealH THEN Cur.dh ELSE 0)
     /\ A - MonthDuration(i) <= 4 /\ MonthDuration(i) - A <= 4

\* C07
PeaksOnlyInRetentionMonths == (Active /\ ~Ipf(i)) => \A k \in 1..Len(segs) : segs[k][1] = "avg"
NoPulseWithoutLoad ==
  Active => /\ (Cur.pkc = 0 => \A k \in 1..Len(segs) : segs[k][1] # "pkc")
            /\ (Cur.pkh = 0 => \A k \in 1..Len(segs) : segs[k][1] # "pkh")
PulsePresent ==
  Active => /\ (RealC => Cardinality({k \in 1..Len(segs) : segs[k][1] = "pkc"}) = 1)
            /\ (RealH => Cardinality({k \in 1..Len(segs) : segs[k][1] = "pkh"}) = 1)
DurationsInRange ==
  Active => /\ (RealC => (0 < C /\ C <= 48 * HU))
            /\ (RealH => (0 < Hh /\ Hh <= 48 * HU))
\* the pulse in the sequence lasts exactly the month's computed peak duration of ITS direction (first-month clamping excepted)
PulseLastsItsDuration ==
  (Active /\ ~Clamped(Cur, i)) => /\ (RealC => C = Cur.dc)
                                  /\ (RealH => Hh = Cur.dh)
\* centre of each pulse within [noon, noon + 1 h] of its peak day (the code's month start is 1-based), or the pulse
\* abuts that noon when both peaks share a day; first-month clamping at time zero excepted
Noon(day) == day * 24 * HU + 12 * HU
BothSameDay == RealC /\ RealH /\ Cur.dayC = Cur.dayH
CentredOnNoon ==
  (Active /\ ~Clamped(Cur, i)) =>
     \A k \in 1..Len(segs) :
        /\ (segs[k][1] = "pkc") =>
              LET off2 == (Start(k) - Noon(Cur.dayC)) + (segs[k][2] - Noon(Cur.dayC)) IN   \* 2 * (centre - noon)
              IF BothSameDay THEN segs[k][2] >= Noon(Cur.dayC) /\ segs[k][2] <= Noon(Cur.dayC) + HU
              ELSE off2 >= 0 /\ off2 <= 2 * HU
        /\ (segs[k][1] = "pkh") =>
              LET off2 == (Start(k) - Noon(Cur.dayH)) + (segs[k][2] - Noon(Cur.dayH)) IN
              IF BothSameDay THEN Start(k) >= Noon(Cur.dayH) /\ Start(k) <= Noon(Cur.dayH) + HU
              ELSE off2 >= 0 /\ off2 <= 2 * HU

\* C08
MonthEndsPresent == Active => (segs[Len(segs)] = <<"avg", Len_hu(i)>> /\ prevEndOk)
WindowsDisjoint ==      \* the reported peak windows overlap neither each other nor the month boundaries
  LET wc == IF RealC THEN <<Noon(Cur.dayC) + HU - Cur.dc \div 2, Noon(Cur.dayC) + HU + Cur.dc \div 2>> ELSE <<>>
      wh == IF RealH THEN <<Noon(Cur.dayH) + HU - Cur.dh \div 2, Noon(Cur.dayH) + HU + Cur.dh \div 2>> ELSE <<>>
      inside(w) == w = <<>> \/ (0 < w[1] /\ w[2] < Len_hu(i))
      apart == wc = <<>> \/ wh = <<>> \/ wc[2] < wh[1] \/ wh[2] < wc[1]
  IN inside(wc) /\ inside(wh) /\ apart /\ (Cur.dayC # Cur.dayH \/ ~RealC \/ ~RealH)
StrictlyIncreasingUnlessOverlap ==
  (Active /\ WindowsDisjoint) => \A k \in 1..Len(segs) : SegLen(k) > 0
SameDayAbut ==          \* same-day peaks: strictly increasing as well when the two half-windows fit in the day's month
  (Active /\ RealC /\ RealH /\ Cur.dayC = Cur.dayH /\ Noon(Cur.dayC) + HU - Cur.dc > 0
      /\ Noon(Cur.dayH) + HU + Cur.dh < Len_hu(i)) => \A k \in 1..Len(segs) : SegLen(k) > 0
RepeatsYearly == Active => InputOf(i) = InputOf(Moy(i))

\* known-finding predicates (unrepaired code)
\* F2: exactly one peak in the month and it falls on day 0 (the absent peak's "day" is 0 too): same-day branch taken
Known_F2 == Active /\ Ipf(i) /\ ((Cur.pkc = 0 /\ Cur.pkh > 0 /\ Cur.dayH = 0) \/ (Cur.pkh = 0 /\ Cur.pkc > 0 /\ Cur.dayC = 0))
Known_F9 == Active /\ Ipf(i) /\ ((Cur.pkc = 0 /\ Cur.wc) \/ (Cur.pkh = 0 /\ Cur.wh))

\* F14: first month, BOTH peaks on day 0 and a half-duration above 13 h: the clamped pulse start (1e-6 h) is shifted
\* again by the same-day placement, the two pulses overlap and one segment gets a negative length.
\* (A single clamped pulse still lasts exactly its duration: energy is conserved, only the centring is lost.)
Known_F14 == Active /\ Clamped(Cur, i) /\ RealC /\ RealH /\ Cur.dayC = Cur.dayH
ConservesK == Conserves \/ Known_F14
DurationsInRangeK == DurationsInRange \/ Known_F14
StrictlyIncreasingUnlessOverlapK == StrictlyIncreasingUnlessOverlap \/ Known_F14
SameDayAbutK == SameDayAbut \/ Known_F14
F14Present == ~(Known_F14 /\ ~Conserves)        \* violated <=> the finding still reproduces on the model

\* vacuity witnesses (must be violated = reachable)
SomeWindowsDisjoint == ~(Active /\ WindowsDisjoint /\ RealC /\ RealH)

Alias == [M |-> M, leap |-> leap, slot |-> slot, special |-> special, i |-> i, segs |-> segs, ipf |-> Ipf(i), A |-> A, C |-> C, Hh |-> Hh,
          dur |-> MonthDuration(i)]

\* ---- generator for the replay (B1 level A): one line per (M, slot, special): every month's segments ----
AllMonths == [m \in 1..M |-> Emit(m)]
EmitGen == (i = 0 /\ ~done) => PrintT(ToJson([M |-> M, slot |-> slot, special |-> special, plain |-> Plain, leap |-> leap,
                                                 months |-> AllMonths,
                                                 ipf |-> [m \in 1..M |-> Ipf(m)],
                                                 mdur |-> [m \in 1..M |-> MonthDuration(m)]]))
=============================================================================
