---------------------------- MODULE RowWiseSweep ----------------------------
(***************************************************************************)
(* rowwise.field_optimization_fr / field_optimization_wp_space_fr: the     *)
(* rotation sweep (rt from start, while rt < stop, step; keep the FIRST    *)
(* strict maximum of the borehole count; duplicates removed afterwards)    *)
(* with the field generator abstracted to a count oracle, and the closed   *)
(* form for an axis-aligned W x H lot at rotation 0.                       *)
(***************************************************************************)
EXTENDS Integers, Sequences, FiniteSets, TLC, Json

CONSTANTS MaxTries,      \* number of rotations tried (from start, stop, step)
          Counts         \* counts the generator may return

VARIABLES k, seen, best, bestK, done, outcome
vars == <<k, seen, best, bestK, done, outcome>>

Init == k = 0 /\ seen = <<>> /\ best = 0 /\ bestK = 0 /\ done = FALSE /\ outcome = "none"

Try == /\ ~done /\ k < MaxTries
       /\ \E c \in Counts :
            /\ seen' = Append(seen, c)
            /\ IF c > best THEN best' = c /\ bestK' = k + 1 ELSE UNCHANGED <<best, bestK>>
       /\ k' = k + 1 /\ UNCHANGED <<done, outcome>>
\* after the loop: remove_duplicates(max_hole, ...) - max_hole is None when no rotation produced a borehole
Finish == /\ ~done /\ k = MaxTries /\ done' = TRUE
          /\ outcome' = IF best = 0 THEN "TypeError" ELSE "field"
          /\ UNCHANGED <<k, seen, best, bestK>>
Next == Try \/ Finish
Spec == Init /\ [][Next]_vars /\ WF_vars(Next)

SeqMaxVal(s) == IF Len(s) = 0 THEN 0 ELSE CHOOSE m \in {s[i] : i \in 1..Len(s)} : \A i \in 1..Len(s) : s[i] <= m
\* C14 : the optimiser returns the field of the tried rotation that yields the most boreholes (the first such rotation)
ReturnsFirstMaximum ==
  (done /\ outcome = "field") =>
     /\ best = SeqMaxVal(seen)
     /\ seen[bestK] = best
     /\ \A i \in 1..(bestK - 1) : seen[i] < best
Terminates == <>done

\* closed form for an axis-aligned rectangle W x H at rotation 0 with target spacing s (all in one unit):
\* rows = H div s + 1 at pitch H / (H div s); floor(W/s) + 1 boreholes per row
LatticeCount(W, H, s) == ((W \div s) + 1) * ((H \div s) + 1)

Emit == done => PrintT(ToJson([seen |-> seen, best |-> best, bestK |-> bestK, outcome |-> outcome]))
=============================================================================
