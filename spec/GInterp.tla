------------------------------ MODULE GInterp ------------------------------
(***************************************************************************)
(* GFunction.g_function_interpolation (gfunction.py) as a decision table   *)
(* with its cache as state: the equivalent height is snapped to the outer  *)
(* stored heights within 1e-6, classified in range (also within 1e-3 below *)
(* the smallest stored height), the interpolation kind follows the number  *)
(* of stored curves, and the interpolation table is built ONCE - with the  *)
(* kind and the extrapolation setting of the first query.                  *)
(***************************************************************************)
EXTENDS Integers, Sequences, FiniteSets, TLC, Json

CONSTANTS Ns,       \* numbers of stored curves to explore, e.g. 1..5
          MaxQ,     \* length of the query sequence
          WithRecompute,  \* BOOLEAN : histories may replace the family (compute_g_functions) between queries
          Fixed     \* {"F28"} : the table always extrapolates (repaired); unrepaired it keeps the setting of the first query

\* query classes relative to the stored heights
Stored   == {"min", "max", "mid_stored"}              \* exactly a stored height (mid_stored needs >= 3 curves)
Snapped  == {"below_snap", "above_snap"}              \* within 1e-6 outside the outer stored heights: snapped onto them
Inside   == {"inside"}                                \* strictly between two stored heights
BelowTol == {"below_tol"}                             \* 1e-6 .. 1e-3 below the smallest stored height: "in range" by tolerance
Far      == {"below_far", "above_far"}
Queries  == Stored \cup Snapped \cup Inside \cup BelowTol \cup Far

\* gen : how often BaseGHE.compute_g_functions replaced the family; cgen : the generation the cached table was built from
VARIABLES n, cache, qs, outs, gen, cgen, ns   \* ns[i] : the number of stored curves when query i was asked
vars == <<n, cache, qs, outs, gen, cgen, ns>>

Kind(k) == IF k >= 5 THEN "cubic" ELSE IF k >= 3 THEN "quadratic" ELSE IF k = 2 THEN "linear" ELSE "stored"
InRangeByCode(q) == q \notin Far
Fill(q) == IF "F28" \in Fixed THEN "extrap" ELSE IF InRangeByCode(q) THEN "plain" ELSE "extrap"

\* what one call returns, given the table that exists (or is built by this call)
Outcome(k, q, c) ==
  IF k = 1 THEN "stored"                                          \* a single curve is returned whatever is asked
  ELSE LET table == IF c = "none" THEN Fill(q) ELSE c IN
       IF q \in Stored \cup Snapped THEN "stored"                  \* interpolation at a knot
       ELSE IF q \in Inside THEN "interp"
       ELSE IF table = "extrap" THEN "extrap"                      \* outside the knots: needs an extrapolating table
       ELSE "ValueError"                                           \* interp1d without extrapolation refuses (also for below_tol!)

Init == n \in Ns /\ cache = "none" /\ qs = <<>> /\ outs = <<>> /\ gen = 0 /\ cgen = 0 /\ ns = <<>>
Ask(q) == /\ Len(qs) < MaxQ /\ (q = "mid_stored" => n >= 3) /\ (n = 1 => q \notin {"mid_stored", "inside"})
          /\ qs' = Append(qs, q) /\ ns' = Append(ns, n)
          /\ outs' = Append(outs, IF n > 1 /\ cache # "none" /\ cgen # gen THEN "stale" ELSE Outcome(n, q, cache))
          /\ cache' = IF n = 1 \/ cache # "none" THEN cache ELSE Fill(q)
          /\ cgen' = IF n = 1 \/ cache # "none" THEN cgen ELSE gen
          /\ UNCHANGED <<n, gen>>
\* BaseGHE.compute_g_functions: a NEW three-height family (min, mean, max of the current sizing window) in a NEW g-function
\* object - the table cached in the old object goes with it
Recompute == /\ Len(qs) < MaxQ - 1 /\ gen < 2
             /\ n' = 3 /\ gen' = gen + 1 /\ cache' = "none" /\ cgen' = gen + 1
             /\ qs' = Append(qs, "recompute") /\ outs' = Append(outs, "replaced") /\ ns' = Append(ns, n)
Next == (\E q \in Queries : Ask(q)) \/ (WithRecompute /\ Recompute)
Spec == Init /\ [][Next]_vars

\* C11 : interpolating at a stored height returns the stored curve, whatever was asked before
StoredHeightReturnsStoredCurve == \A i \in 1..Len(qs) : qs[i] \in Stored \cup Snapped => outs[i] = "stored"
\* C11 : the table in use was built from the family the object holds now
TableOfCurrentFamily == cache = "none" \/ cgen = gen
\* C11 : queries inside the stored range do not depend on earlier queries
InRangeIndependentOfHistory == \A i \in 1..Len(qs) : qs[i] \in Stored \cup Snapped \cup Inside => outs[i] \in {"stored", "interp"}
\* unrepaired (F28): outside the stored range the answer depended on the FIRST query of the object's life
OutsideDependsOnFirst == \A i \in 1..Len(qs) : (ns[i] > 1 /\ gen = 0 /\ qs[i] \in Far \cup BelowTol) => (outs[i] = "extrap" <=> qs[1] \in Far)
\* C13 / C11, repaired: a query outside the stored range extrapolates whatever was asked before
OutsideIndependentOfHistory == \A i \in 1..Len(qs) : (ns[i] > 1 /\ qs[i] \in Far \cup BelowTol) => outs[i] = "extrap"

Emit == Len(qs) = MaxQ => PrintT(ToJson([n |-> (IF ns = <<>> THEN n ELSE ns[1]), ns |-> ns, qs |-> qs, outs |-> outs, kind |-> Kind(n)]))
=============================================================================
