----------------------------- MODULE EquivPipe -----------------------------
(***************************************************************************)
(* Conversion of a double U-tube / coaxial exchanger to the equivalent     *)
(* single U-tube (borehole_heat_exchangers.py: *_volumes,                  *)
(* equivalent_single_u_tube, match_effective_borehole_resistance) as four  *)
(* steps over the shared solve_root semantics:                             *)
(*   Volumes -> EqualVolumeRadii -> SolvePipeK -> SolveGroutK.             *)
(* solve_root(lower, upper): Bracketed (brentq: the objective is zero at   *)
(* the returned abscissa), ClampLow (both negative: returns lower),        *)
(* ClampHigh (both positive: returns upper), ZeroDiv (a bound evaluates to *)
(* exactly zero).  Design-level content: the resistances match iff both    *)
(* solves are Bracketed; the clamps are exactly the ways it can fail.      *)
(***************************************************************************)
EXTENDS Integers, Sequences, FiniteSets, TLC

Outcomes == {"Bracketed", "ClampLow", "ClampHigh", "ZeroDiv"}

VARIABLES stage, ocPipe, ocGrout, volsKept, fpMatched, rbMatched
evars == <<stage, ocPipe, ocGrout, volsKept, fpMatched, rbMatched>>

EInit == stage = "start" /\ ocPipe = "none" /\ ocGrout = "none" /\ volsKept = FALSE /\ fpMatched = FALSE /\ rbMatched = FALSE

\* radii from equal fluid / pipe-wall cross sections: r_i' = sqrt(V_f / 2 pi), r_o' = sqrt((V_f + V_p) / 2 pi)
Volumes == stage = "start" /\ stage' = "radii" /\ UNCHANGED <<ocPipe, ocGrout, volsKept, fpMatched, rbMatched>>
EqualVolumeRadii == stage = "radii" /\ stage' = "pipeK" /\ volsKept' = TRUE /\ UNCHANGED <<ocPipe, ocGrout, fpMatched, rbMatched>>
SolvePipeK(oc) == /\ stage = "pipeK" /\ oc \in Outcomes
                  /\ ocPipe' = oc /\ fpMatched' = (oc = "Bracketed")
                  /\ stage' = IF oc = "ZeroDiv" THEN "raised" ELSE "groutK"
                  /\ UNCHANGED <<ocGrout, volsKept, rbMatched>>
SolveGroutK(oc) == /\ stage = "groutK" /\ oc \in Outcomes
                   /\ ocGrout' = oc /\ rbMatched' = (oc = "Bracketed")
                   /\ stage' = IF oc = "ZeroDiv" THEN "raised" ELSE "done"
                   /\ UNCHANGED <<ocPipe, volsKept, fpMatched>>
ENext == Volumes \/ EqualVolumeRadii \/ (\E oc \in Outcomes : SolvePipeK(oc)) \/ (\E oc \in Outcomes : SolveGroutK(oc))
ESpec == EInit /\ [][ENext]_evars

\* C15
PreservesBulk == stage = "done" => (volsKept /\ (ocPipe = "Bracketed" <=> fpMatched) /\ (ocGrout = "Bracketed" <=> rbMatched))
MatchesIffBracketed == stage = "done" => ((fpMatched /\ rbMatched) <=> (ocPipe = "Bracketed" /\ ocGrout = "Bracketed"))
\* F11: the fixed brackets (pipe k/100 .. 10k ; grout 0.01 .. 7.0 W/m-K) do not always contain the root
Known_F11 == stage = "done" /\ (ocPipe \in {"ClampLow", "ClampHigh"} \/ ocGrout \in {"ClampLow", "ClampHigh"})
=============================================================================
