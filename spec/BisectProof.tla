---------------------------- MODULE BisectProof ----------------------------
(* The integer bisection loop of Bisection1D.search (the S_loop / exit part of Search.tla) for a candidate list of     *)
(* ARBITRARY length, with a TLAPS proof of what TLC checks on lists of up to 64 entries:                                *)
(*   - the bracket invariant: the left end has the sign of the smallest field, the right end the other sign;            *)
(*   - on the natural exit (the midpoint coincides with an end) the ends are adjacent: the selected end xr has a        *)
(*     predecessor that fails (C05 PredecessorFails) and is itself feasible when the left sign is positive (C01);       *)
(*   - no index is evaluated twice by the loop (the memoised oracle is never asked a second time);                      *)
(*   - the width xr - xl strictly decreases (termination measure).                                                      *)
(* The sign of an evaluated field is chosen lazily (seen), as in Search.tla. max_iter is not modelled: the bounded      *)
(* model covers its interplay; real lists are far shorter than 2^15.                                                    *)
(* Bound to Search.tla by a TLC refinement check: SearchRefinesBisect.tla (every step of the bounded model is an       *)
(* Enter / Step / Exit / Reset of this module, or leaves its variables unchanged, under the stated mapping).           *)
(* Proof checked by tlapm 1.6.0-pre (SMT, Zenon, Isabelle, PTL back ends): 78 obligations.                              *)
EXTENDS Integers, TLAPS

VARIABLES st,      \* "idle" | "loop" | "done"
          xl, xr,  \* x_l_idx, x_r_idx
          lsign,   \* sign(t_0_upper)
          seen     \* evaluated index -> sign  (calculated_temperatures, signs only)

vars == <<st, xl, xr, lsign, seen>>

Mid == (xl + xr + 1) \div 2          \* ceil((x_l_idx + x_r_idx) / 2)

Init == st = "idle"

\* check_bracket(sign(t_0_upper), sign(t_m1)) held: the loop is entered with opposite signs at 0 and at the capped end
Enter(r, s) == /\ st = "idle" /\ r \in Nat /\ r > 0 /\ s \in {-1, 1}
               /\ st' = "loop" /\ xl' = 0 /\ xr' = r /\ lsign' = s
               /\ seen' = [i \in {0, r} |-> IF i = 0 THEN s ELSE -s]

Step(s) == /\ st = "loop" /\ Mid \notin {xl, xr} /\ s \in {-1, 1}
           /\ seen' = [i \in DOMAIN seen \cup {Mid} |-> IF i = Mid THEN s ELSE seen[i]]
           /\ IF s = lsign THEN xl' = Mid /\ xr' = xr ELSE xr' = Mid /\ xl' = xl
           /\ UNCHANGED <<st, lsign>>

Exit == /\ st = "loop" /\ Mid \in {xl, xr}
        /\ st' = "done" /\ UNCHANGED <<xl, xr, lsign, seen>>

\* the search returns / raises / is started again (nested searches), or prepares its next start while idle:
\* everything about the old bracket is forgotten
Reset == st' = "idle"

Next == (\E r \in Nat, s \in {-1, 1} : Enter(r, s)) \/ (\E s \in {-1, 1} : Step(s)) \/ Exit \/ Reset
Spec == Init /\ [][Next]_vars

-----------------------------------------------------------------------------
Inv == /\ st \in {"idle", "loop", "done"}
       /\ st # "idle" =>
            /\ xl \in Nat /\ xr \in Nat /\ xl < xr
            /\ lsign \in {-1, 1}
            /\ xl \in DOMAIN seen /\ xr \in DOMAIN seen
            /\ seen[xl] = lsign /\ seen[xr] = -lsign
            /\ \A i \in DOMAIN seen : i \in Nat /\ (i <= xl \/ i >= xr)     \* nothing strictly inside the bracket was evaluated
       /\ st = "done" => xr = xl + 1

\* C05 PredecessorFails / C01 for the bisect branch: at the exit the selected end is adjacent to a field of the other sign
Adjacent == st = "done" => /\ xr = xl + 1 /\ seen[xl] = lsign /\ seen[xr] = -lsign

\* the loop never evaluates an index it has evaluated before
FreshMid == st = "loop" /\ Mid \notin {xl, xr} => Mid \notin DOMAIN seen

LEMMA MidBetween == \A a, b \in Nat : a < b => LET m == (a + b + 1) \div 2 IN
                       /\ m \in Nat /\ a < m /\ m <= b /\ (m = b <=> b = a + 1)
  OBVIOUS

THEOREM InvHolds == Spec => []Inv
<1>1. Init => Inv
  BY DEF Init, Inv
<1>2. Inv /\ [Next]_vars => Inv'
  <2> SUFFICES ASSUME Inv, [Next]_vars PROVE Inv'
    OBVIOUS
  <2>1. ASSUME NEW r \in Nat, NEW s \in {-1, 1}, Enter(r, s) PROVE Inv'
    BY <2>1 DEF Enter, Inv
  <2>2. ASSUME NEW s \in {-1, 1}, Step(s) PROVE Inv'
    <3>1. st = "loop" /\ st' = "loop" /\ xl \in Nat /\ xr \in Nat /\ xl < xr /\ lsign' = lsign /\ lsign \in {-1, 1}
      BY <2>2 DEF Step, Inv
    <3>2. Mid \in Nat /\ xl < Mid /\ Mid < xr
      BY <3>1, <2>2, MidBetween DEF Step, Mid
    <3>3. CASE s = lsign
      BY <3>1, <3>2, <3>3, <2>2 DEF Step, Inv
    <3>4. CASE s # lsign
      <4>1. s = -lsign
        BY <3>1, <3>4
      <4> QED
        BY <3>1, <3>2, <3>4, <4>1, <2>2 DEF Step, Inv
    <3> QED
      BY <3>3, <3>4
  <2>3. ASSUME Exit PROVE Inv'
    <3>1. st = "loop" /\ xl \in Nat /\ xr \in Nat /\ xl < xr
      BY <2>3 DEF Exit, Inv
    <3>2. xr = xl + 1
      BY <3>1, <2>3, MidBetween DEF Exit, Mid
    <3> QED
      BY <3>1, <3>2, <2>3 DEF Exit, Inv
  <2>4. CASE UNCHANGED vars
    BY <2>4 DEF vars, Inv
  <2>5. CASE Reset
    BY <2>5 DEF Reset, Inv
  <2> QED
    BY <2>1, <2>2, <2>3, <2>4, <2>5 DEF Next
<1> QED
  BY <1>1, <1>2, PTL DEF Spec

THEOREM AdjacentHolds == Spec => []Adjacent
<1>1. Inv => Adjacent
  BY DEF Inv, Adjacent
<1> QED
  BY <1>1, InvHolds, PTL

THEOREM FreshHolds == Spec => []FreshMid
<1>1. Inv => FreshMid
  <2> SUFFICES ASSUME Inv, st = "loop", Mid \notin {xl, xr} PROVE Mid \notin DOMAIN seen
    BY DEF FreshMid
  <2>1. xl \in Nat /\ xr \in Nat /\ xl < xr
    BY DEF Inv
  <2>2. xl < Mid /\ Mid < xr
    BY <2>1, MidBetween DEF Mid
  <2> QED
    BY <2>1, <2>2 DEF Inv
<1> QED
  BY <1>1, InvHolds, PTL

\* termination measure: every Step strictly shrinks the bracket
THEOREM WidthDecreases == Inv /\ (\E s \in {-1, 1} : Step(s)) => (xr' - xl' < xr - xl /\ xr' - xl' > 0)
<1> SUFFICES ASSUME Inv, NEW s \in {-1, 1}, Step(s) PROVE xr' - xl' < xr - xl /\ xr' - xl' > 0
  OBVIOUS
<1>1. xl \in Nat /\ xr \in Nat /\ xl < xr
  BY DEF Step, Inv
<1>2. Mid \in Nat /\ xl < Mid /\ Mid < xr
  BY <1>1, MidBetween DEF Step, Mid
<1> QED
  BY <1>1, <1>2 DEF Step
=============================================================================
