------------------------------ MODULE Domains ------------------------------
(***************************************************************************)
(* The candidate-field generators of ghedesigner/domains.py as loops that  *)
(* emit one symbolic candidate per step:                                   *)
(*   square_and_near_square, rectangular, bi_rectangular (inside           *)
(*   bi_rectangle_nested), zoned_rectangle_domain (inside                  *)
(*   bi_rectangle_zoned_nested).                                           *)
(* Lengths and spacings are integers in a common unit; derived spacings    *)
(* are rationals <<num, den>>.  ceil/floor are exact.  A candidate is      *)
(*   [kind, n1, n2, b1, b2, tr, ni1, ni2, extra]                           *)
(* from which count, extents and a lower bound of the minimum pairwise     *)
(* distance follow in closed form (the replay recomputes them from the     *)
(* real coordinates).                                                      *)
(***************************************************************************)
EXTENDS Integers, Sequences, FiniteSets, TLC, Json

CONSTANTS Lots,      \* set of [lx, ly, bmin, bmx, bmy] (integers, common unit); near-square uses lx = length, bmin = b
          Gen,       \* "nearsq" | "rect" | "birect" | "zoned"
          Fixed      \* {"F4"} when the bi-zoned transpose repair is modelled

VARIABLES lot, out, done
vars == <<lot, out, done>>

Ceil(a, b) == (a + b - 1) \div b          \* a >= 0, b > 0
Floor(a, b) == a \div b
RLeq(p, q) == p[1] * q[2] <= q[1] * p[2]  \* p <= q for rationals with positive denominators
RMulInt(k, p) == <<k * p[1], p[2]>>
MaxI(a, b) == IF a > b THEN a ELSE b

Cand(kind, n1, n2, b1, b2, tr, ni1, ni2, extra) ==
  [kind |-> kind, n1 |-> n1, n2 |-> n2, b1 |-> b1, b2 |-> b2, tr |-> tr, ni1 |-> ni1, ni2 |-> ni2, extra |-> extra]
Rect(n1, n2, b1, b2, tr) == Cand("rect", n1, n2, b1, b2, tr, 0, 0, 0)

\* ---- square_and_near_square(1, floor(length / b) + 1, b) ------------------------------------
NearSq(length, b) ==
  LET n == Floor(length, b) + 1
      f[k \in 0..(2 * n)] == IF k = 0 THEN <<>>
                             ELSE LET i == (k + 1) \div 2  j == (k + 1) % 2 IN Append(f[k - 1], Rect(i, i + j, <<b, 1>>, <<b, 1>>, FALSE))
  IN f[2 * n]

\* ---- rectangular(length_x, length_y, b_min, b_max) ------------------------------------------
Rectangular(lx, ly, bmin, bmax) ==
  LET tr == lx < ly
      l1 == IF tr THEN ly ELSE lx
      l2 == IF tr THEN lx ELSE ly
      nmin == Ceil(l1, bmax) + 1
      nmax == Floor(l1, bmin) + 1
      N2(nb) == Floor(l2 * (nb - 1), l1) + 1
      B(nb) == <<l1, nb - 1>>
      first == [i \in 1..(nmin - 1) |-> Rect(i, 1, B(nmin), B(nmin), tr)]
               \o [j \in 1..(N2(nmin) - 1) |-> Rect(nmin, j, B(nmin), B(nmin), tr)]
      \* state of the loop: <<list, n_2_old>>
      g[nb \in (nmin - 1)..nmax] ==
         IF nb = nmin - 1 THEN <<first, 1>>
         ELSE LET prev == g[nb - 1] IN
              IF prev[2] = N2(nb) THEN prev
              ELSE <<Append(prev[1], Rect(nb, N2(nb), B(nb), B(nb), tr)), N2(nb)>>
  IN IF nmin > nmax THEN <<>> ELSE g[nmax][1]

\* ---- bi_rectangular(length_1, length_2, b_min, b_max_1, b_max_2 = l2/(n2-1), transpose) : one nested list --------
BiRectList(l1, l2, bmin, bmax1, n2, tr) ==
  LET nmin == Ceil(l1, bmax1) + 1
      nmax == Floor(l1, bmin) + 1
      b2 == <<l2, n2 - 1>>
      B1(n1) == <<l1, n1 - 1>>
      first == [i \in 1..(nmin - 1) |-> Rect(i, 1, B1(nmin), b2, tr)]
               \o [j \in 1..(n2 - 1) |-> Rect(nmin, j, B1(nmin), b2, tr)]
      main == [k \in 1..(nmax - nmin + 1) |-> Rect(nmin + k - 1, n2, B1(nmin + k - 1), b2, tr)]
  IN IF nmin > nmax THEN <<>> ELSE first \o main

\* bi_rectangle_nested(length_x, length_y, b_min, b_max_x, b_max_y) : sequence of lists
BiRectNested(lx, ly, bmin, bmx, bmy) ==
  LET tr == lx < ly
      l1 == IF tr THEN ly ELSE lx
      l2 == IF tr THEN lx ELSE ly
      bmax1 == IF tr THEN bmy ELSE bmx
      bmax2 == IF tr THEN bmx ELSE bmy
      nmin == Ceil(l2, bmax2) + 1
      nmax == Floor(l2, bmin) + 1
  IN [k \in 1..MaxI(nmax - nmin + 1, 0) |-> BiRectList(l1, l2, bmin, bmax1, nmin + k - 1, tr)]

\* ---- zoned_rectangle_domain(length_1, length_2, n_1, n_2, transpose) ---------------------------
\* called with length_1 >= length_2 already swapped, so its own swap is the identity
Zoned(n1, n2, l1, l2, ni1, ni2, tr) == Cand("zoned", n1, n2, <<l1, n1 - 1>>, <<l2, n2 - 1>>, tr, ni1, ni2, 0)

ZonedDomain(l1, l2, n1, n2, tr) ==
  LET \* ratio_1 > ratio  <=>  bi_1 / bi_2_p1 > b_1 / b_2  with bi_1 = l1/(ni1+1), bi_2_p1 = l2/(ni2+2), b_1 = l1/(n1-1), b_2 = l2/(n2-1)
      \*               <=>  (ni2 + 2) * (n1 - 1) > (ni1 + 1) * (n2 - 1)
      IncFirst(ni1, ni2) == (ni2 + 2) * (n1 - 1) > (ni1 + 1) * (n2 - 1)
      steps == MaxI(n1 - 3, 0) + MaxI(n2 - 3, 0)
      \* the first candidate is not transposed in the unrepaired code
      h[k \in 0..steps] ==
         IF k = 0 THEN <<<<Zoned(n1, n2, l1, l2, 1, 1, IF "F4" \in Fixed THEN tr ELSE FALSE)>>, 1, 1>>
         ELSE LET prev == h[k - 1]  a == prev[2]  b == prev[3] IN
              IF ~(a < n1 - 2 \/ b < n2 - 2) THEN prev
              ELSE LET na == IF IncFirst(a, b) THEN a + 1 ELSE a
                       nb == IF IncFirst(a, b) THEN b ELSE b + 1
                   IN <<Append(prev[1], Zoned(n1, n2, l1, l2, na, nb, tr)), na, nb>>
  IN h[steps][1]

\* ---- bi_rectangle_zoned_nested(length_x, length_y, b_min, b_max_x, b_max_y) : ONE list --------
ZonedNested(lx, ly, bmin, bmx, bmy) ==
  LET tr == lx < ly
      l1 == IF tr THEN ly ELSE lx
      l2 == IF tr THEN lx ELSE ly
      bmax1 == IF tr THEN bmy ELSE bmx
      bmax2 == IF tr THEN bmx ELSE bmy
      nmin1 == Ceil(l1, bmax1) + 1      nmax1 == Floor(l1, bmin) + 1
      nmin2 == Ceil(l2, bmax2) + 1      nmax2 == Floor(l2, bmin) + 1
      c1 == nmax1 - nmin1 + 1           c2 == nmax2 - nmin2 + 1
      \* the step-up block: spacings from the (un)swapped sides
      bx == IF "F4" \in Fixed THEN <<l1, nmin1 - 1>> ELSE <<lx, nmin1 - 1>>
      by == IF "F4" \in Fixed THEN <<l2, nmin2 - 1>> ELSE <<ly, nmin2 - 1>>
      stepup == [i \in 1..nmin1 |-> Cand("rect", i, 1, bx, by, tr, 0, 0, 0)]
             \o [i \in 1..(nmin2 - 1) |-> Cand("L", nmin1, i + 1, bx, by, tr, 0, 0, 0)]
             \o [i \in 1..(nmin2 - 1) |-> Cand("U", nmin1, nmin2, bx, by, tr, 0, 0, i + 1)]
             \o [i \in 1..(nmin1 - 2) |-> Cand("C", nmin1, nmin2, bx, by, tr, 0, 0, i)]
      \* walk of (j, k) over the n_1 / n_2 value lists, alternating
      w[i \in 0..(c1 + c2 - 1)] ==
         IF i = 0 THEN <<<<>>, 0, 0>>
         ELSE LET prev == w[i - 1]  j == prev[2]  k == prev[3]
                  zs == ZonedDomain(l1, l2, nmin1 + j, nmin2 + k, tr)
                  even == (i - 1) % 2 = 0
                  nj == IF even THEN (IF j < c1 - 1 THEN j + 1 ELSE j) ELSE (IF k < c2 - 1 THEN j ELSE j + 1)
                  nk == IF even THEN (IF j < c1 - 1 THEN k ELSE k + 1) ELSE (IF k < c2 - 1 THEN k + 1 ELSE k)
              IN <<prev[1] \o zs, nj, nk>>
  IN IF c1 < 1 \/ c2 < 1 THEN <<>> ELSE stepup \o w[c1 + c2 - 1][1]

-----------------------------------------------------------------------------
(* closed forms *)
OpenRectCount(n1, n2) == IF n1 > 2 /\ n2 > 2 THEN 2 * n1 + 2 * (n2 - 2) ELSE n1 * n2
Count(c) == CASE c.kind = "rect" -> c.n1 * c.n2
              [] c.kind = "L" -> c.n1 + c.n2 - 1
              [] c.kind = "U" -> c.n1 + (c.n2 - 1) + (c.extra - 1)
              [] c.kind = "C" -> c.n1 + 2 * (c.n2 - 1) + c.extra
              [] c.kind = "zoned" -> OpenRectCount(c.n1, c.n2) + c.ni1 * c.ni2
\* extents along the generator's own axes 1, 2 ; along x, y after the optional transpose
Ext1(c) == RMulInt(c.n1 - 1, c.b1)
Ext2(c) == RMulInt(c.n2 - 1, c.b2)
ExtX(c) == IF c.tr THEN Ext2(c) ELSE Ext1(c)
ExtY(c) == IF c.tr THEN Ext1(c) ELSE Ext2(c)
\* lower bound of the minimum pairwise distance (exact for rect / L / U / C; zoned: min with the interior spacings)
SpacingOK(c, bmin) ==
  /\ (c.n1 > 1 => RLeq(<<bmin, 1>>, c.b1))
  /\ (c.n2 > 1 => RLeq(<<bmin, 1>>, c.b2))
  /\ (c.kind = "zoned" => /\ RLeq(<<bmin * (c.ni1 + 1), 1>>, Ext1(c))
                          /\ RLeq(<<bmin * (c.ni2 + 1), 1>>, Ext2(c)))

Lists ==
  CASE Gen = "nearsq" -> <<NearSq(lot.lx, lot.bmin)>>
    [] Gen = "rect"   -> <<Rectangular(lot.lx, lot.ly, lot.bmin, lot.bmx)>>
    [] Gen = "birect" -> BiRectNested(lot.lx, lot.ly, lot.bmin, lot.bmx, lot.bmy)
    [] Gen = "zoned"  -> <<ZonedNested(lot.lx, lot.ly, lot.bmin, lot.bmx, lot.bmy)>>

Init == lot \in Lots /\ out = <<>> /\ done = FALSE
Compute == ~done /\ out' = Lists /\ done' = TRUE /\ UNCHANGED lot
Next == Compute
Spec == Init /\ [][Next]_vars

ForAllCands(P(_)) == \A j \in 1..Len(out) : \A i \in 1..Len(out[j]) : P(out[j][i])

\* C03 ---------------------------------------------------------------------------------------
InsideLandP(c) == IF Gen = "nearsq" THEN RLeq(Ext1(c), <<lot.lx, 1>>)
                  ELSE RLeq(ExtX(c), <<lot.lx, 1>>) /\ RLeq(ExtY(c), <<lot.ly, 1>>)
InsideLand == done => ForAllCands(InsideLandP)
SpacingP(c) == SpacingOK(c, lot.bmin)
SpacingAtLeastBmin == done => ForAllCands(SpacingP)
NearSquareShape == (done /\ Gen = "nearsq") =>
   \A i \in 1..Len(out[1]) : LET c == out[1][i] IN
      /\ c.n2 - c.n1 \in {0, 1} /\ c.b1 = <<lot.bmin, 1>> /\ c.b2 = <<lot.bmin, 1>>
      /\ (c.n1 - 1) * lot.bmin <= lot.lx
CountsNonDecreasing == (done /\ Gen \in {"nearsq", "rect", "birect"}) =>
   \A j \in 1..Len(out) : \A i \in 1..(Len(out[j]) - 1) : Count(out[j][i]) <= Count(out[j][i + 1])
CountsStrictlyIncreasing == (done /\ Gen \in {"nearsq", "rect"}) =>
   \A j \in 1..Len(out) : \A i \in 1..(Len(out[j]) - 1) : Count(out[j][i]) < Count(out[j][i + 1])
\* a side admits a whole number of rows between the spacing limits (e.g. 87 m with b_min = b_max = 5 m does not)
HasCount(l, bmax) == Ceil(l, bmax) <= Floor(l, lot.bmin)
Admits == \/ Gen = "nearsq"
          \/ (Gen = "rect" /\ HasCount(MaxI(lot.lx, lot.ly), lot.bmx))
          \/ (Gen \in {"birect", "zoned"} /\ LET tr == lot.lx < lot.ly IN
                 /\ HasCount(MaxI(lot.lx, lot.ly), IF tr THEN lot.bmy ELSE lot.bmx)
                 /\ HasCount(IF tr THEN lot.lx ELSE lot.ly, IF tr THEN lot.bmx ELSE lot.bmy))
NonEmpty == (done /\ Admits) => (Len(out) > 0 /\ \A j \in 1..Len(out) : Len(out[j]) > 0)
\* a spacing window that admits no whole row count yields NO candidate (never one outside the window)
NoCandidateWithoutCount == (done /\ ~Admits) => \A j \in 1..Len(out) : Len(out[j]) = 0

\* Bisection2D relies on this: its outer selection key 0 (the single borehole tacked on in front) wraps to nested[-1], the LAST list,
\* which is harmless only because every bi-rectangle list starts with the same single-borehole field (Search.tla, B_inner).
BiRectListsStartWithSingle == (done /\ Gen = "birect") => \A j \in 1..Len(out) : Len(out[j]) > 0 => Count(out[j][1]) = 1

\* ... and on this: the outer search of Bisection2D runs over (1 + number of lists) fields but labels them with the descriptors
\* of list 0, so list 0 must be at least that long
BiRectFirstListLongEnough == (done /\ Gen = "birect" /\ Len(out) > 0) => (Len(out[1]) = 0 \/ Len(out[1]) >= Len(out) + 1)

Known_F4 == done /\ Gen = "zoned" /\ lot.lx < lot.ly

Emit == done => PrintT(ToJson([gen |-> Gen, lot |-> lot,
                                 lists |-> [j \in 1..Len(out) |-> [i \in 1..Len(out[j]) |->
                                     LET c == out[j][i] IN <<c.kind, c.n1, c.n2, c.b1, c.b2, c.tr, c.ni1, c.ni2, c.extra, Count(c)>>]]]))
=============================================================================
