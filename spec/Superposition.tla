--------------------------- MODULE Superposition ---------------------------
(***************************************************************************)
(* The documented temporal superposition (BaseGHE._simulate_detailed):     *)
(*   EFT_n = Tg + SUM_{i<=n} (q_i - q_{i-1}) G[t_n - t_{i-1}] / K          *)
(*              + q_n * R  -  q_n * Cf                                     *)
(* with q_0 = 0, t_0 = 0; K = 2 pi k H N, R = R_b* / (H N),                *)
(* Cf = 1 / (2 m cp N).  Here everything is an integer or a rational with  *)
(* a fixed denominator, G is any table over integer time differences.      *)
(* TLC builds every load / time sequence within the bounds, checks the     *)
(* consequences the property lists, and prints the exact values the real   *)
(* function is replayed against.                                           *)
(***************************************************************************)
EXTENDS Integers, Sequences, FiniteSets, TLC, Json

CONSTANTS MaxLen, LoadVals, MaxT, TableIds,
          K, Rnum, Rden, Cnum, Cden       \* K > 0; R = Rnum/Rden; Cf = Cnum/Cden

VARIABLES q, t, tab
vars == <<q, t, tab>>

G(id, d) == CASE id = 1 -> d                    \* linear
              [] id = 2 -> d * d                \* convex
              [] id = 3 -> 3 + d                \* offset
              [] id = 4 -> d - 2                \* negative at short times (bounded below)
              [] id = 5 -> 7                    \* constant

Q(s, i) == IF i = 0 THEN 0 ELSE s[i]
T(s, i) == IF i = 0 THEN 0 ELSE s[i]

RECURSIVE SumTo(_, _, _, _, _)
SumTo(qs, ts, id, n, i) == IF i = 0 THEN 0
                           ELSE (Q(qs, i) - Q(qs, i - 1)) * G(id, T(ts, n) - T(ts, i - 1)) + SumTo(qs, ts, id, n, i - 1)
Num(qs, ts, id, n) == SumTo(qs, ts, id, n, n)

\* (EFT_n - Tg) * K * Rden * Cden
Dev(qs, ts, id, n) == Num(qs, ts, id, n) * Rden * Cden + Q(qs, n) * Rnum * K * Cden - Q(qs, n) * Cnum * K * Rden

Scale(a, qs) == [i \in 1..Len(qs) |-> a * qs[i]]

Init == q = <<>> /\ t = <<>> /\ tab \in TableIds
Step == /\ Len(q) < MaxLen
        /\ \E v \in LoadVals, nt \in 1..MaxT :
             /\ (Len(t) > 0 => nt > t[Len(t)])
             /\ q' = Append(q, v) /\ t' = Append(t, nt)
        /\ UNCHANGED tab
Next == Step
Spec == Init /\ [][Next]_vars

N == Len(q)
ZeroLoadGivesGroundTemp == (\A i \in 1..N : q[i] = 0) => \A n \in 1..N : Dev(q, t, tab, n) = 0
Linear == \A n \in 1..N : /\ Dev(Scale(2, q), t, tab, n) = 2 * Dev(q, t, tab, n)
                          /\ Dev(Scale(-1, q), t, tab, n) = - Dev(q, t, tab, n)
\* a load that only ever rises from zero, under a positive table and R > Cf, raises the temperature (and the mirror image lowers it)
PositiveTable == \A d \in 1..MaxT : G(tab, d) > 0
Rising == \A i \in 1..N : Q(q, i) >= Q(q, i - 1)
RejectionRaises == (PositiveTable /\ Rising /\ Rnum * Cden > Cnum * Rden) =>
                      \A n \in 1..N : (q[n] > 0 => Dev(q, t, tab, n) > 0) /\ (q[n] > 0 => Dev(Scale(-1, q), t, tab, n) < 0)
\* superposition of two load histories on the same time axis
Additive == \A n \in 1..N : Dev([i \in 1..N |-> q[i] + (IF i = N THEN 1 ELSE 0)], t, tab, n)
                            = Dev(q, t, tab, n) + Dev([i \in 1..N |-> IF i = N THEN 1 ELSE 0], t, tab, n)

Emit == N > 0 => PrintT(ToJson([q |-> q, t |-> t, tab |-> tab, dev |-> [n \in 1..N |-> Dev(q, t, tab, n)],
                                  den |-> K * Rden * Cden, K |-> K, R |-> <<Rnum, Rden>>, Cf |-> <<Cnum, Cden>>,
                                  g |-> [d \in 1..MaxT |-> G(tab, d)]]))
=============================================================================
