------------------------------- MODULE Wiring -------------------------------
(***************************************************************************)
(* What travels from the user's setter calls to the search class:          *)
(*   GHEManager.set_design (six near-identical blocks, one per geometry)   *)
(*     -> Design<Geom>.__init__ -> Design<Geom>.find_design                *)
(*     -> Bisection1D | Bisection2D | BisectionZD | RowWise...Search.      *)
(* Every block must forward the same things; a slot dropped in one block   *)
(* silently falls back to a default (e.g. flow_type -> BOREHOLE).          *)
(*                                                                         *)
(* set_design may be called again (another flow rate or flow type) and     *)
(* setters may replace an input object in between: the design that         *)
(* find_design runs is the snapshot taken by the LAST set_design call -    *)
(* its flow rate, its flow type and the input objects that were in the     *)
(* manager at that moment (C20: the flow specification the user gave last  *)
(* is the one the search works with; C13: nothing of an earlier call       *)
(* survives).                                                              *)
(***************************************************************************)
EXTENDS Integers, Sequences, FiniteSets, TLC, Json

Geoms == {"NEARSQUARE", "RECTANGLE", "BIRECTANGLE", "BIZONEDRECTANGLE", "BIRECTANGLECONSTRAINED", "ROWWISE"}
Flows == {"BOREHOLE", "SYSTEM"}
Rates == {1, 2}
\* the things the user supplied (identities) that must reach the search unchanged
ObjSlots == {"borehole", "pipe_type", "fluid", "pipe", "grout", "soil", "sim_params", "loads", "geometry"}
Slots == ObjSlots \cup {"flow_rate", "flow_type"}
Replaceable == {"soil", "borehole"}       \* setters called again between / after set_design calls (bounded alphabet)

SearchClass(g) == CASE g \in {"NEARSQUARE", "RECTANGLE"} -> "Bisection1D"
                    [] g = "BIRECTANGLE" -> "Bisection2D"
                    [] g \in {"BIZONEDRECTANGLE", "BIRECTANGLECONSTRAINED"} -> "BisectionZD"
                    [] g = "ROWWISE" -> "RowWiseModifiedBisectionSearch"

VARIABLES geom, stage, ver, design, search, hist, nset, gens
vars == <<geom, stage, ver, design, search, hist, nset, gens>>

\* what the manager holds right now: object identities <<slot, version>>
Held(f, r) == [s \in Slots |-> IF s = "flow_type" THEN f ELSE IF s = "flow_rate" THEN r ELSE <<s, ver[s]>>]

Init == /\ geom \in Geoms /\ stage = "set" /\ ver = [s \in ObjSlots |-> 1]
        /\ design = <<>> /\ search = <<>> /\ hist = <<>> /\ nset = 0 /\ gens = <<>>

SetDesign(f, r) == /\ stage \in {"set", "designed"} /\ nset < 2
                   /\ design' = Held(f, r) /\ stage' = "designed" /\ nset' = nset + 1
                   /\ hist' = Append(hist, <<"set_design", f, r>>)
                   /\ UNCHANGED <<geom, ver, search, gens>>
\* a setter is called again: the manager holds a NEW object; an existing design keeps the one it captured
ReSet(s) == /\ stage \in {"set", "designed"} /\ ver[s] = 1 /\ Len(hist) < 4
            /\ ver' = [ver EXCEPT ![s] = 2]
            /\ hist' = Append(hist, <<"reset", s>>)
            /\ UNCHANGED <<geom, stage, design, search, nset, gens>>
FindDesign == /\ stage = "designed"
              /\ search' = [cls |-> SearchClass(geom), args |-> [s \in Slots \ {"geometry"} |-> design[s]], method |-> "HYBRID",
                             geometry |-> design["geometry"]]
              /\ stage' = "searching" /\ hist' = Append(hist, <<"find_design">>)
              /\ UNCHANGED <<geom, ver, design, nset, gens>>
\* RowWise: the search generates fields at several stages (the two bounding spacings, the bisection midpoints, the exhaustive tail, the
\* one-borehole probe does not generate); EVERY generation is handed the rotation window, rotation step and outlines of the captured
\* geometry - none falls back to the generator's defaults (-90 .. 0 degrees)
GenStages == {"upper", "lower", "bisect", "tail"}
Generate(st) == /\ stage = "searching" /\ geom = "ROWWISE" /\ Len(gens) < 4
                /\ gens' = Append(gens, [stage |-> st, geometry |-> search.geometry])
                /\ UNCHANGED <<geom, stage, ver, design, search, hist, nset>>
Next == (\E f \in Flows, r \in Rates : SetDesign(f, r)) \/ (\E s \in Replaceable : ReSet(s)) \/ FindDesign \/ (\E st \in GenStages : Generate(st))
Spec == Init /\ [][Next]_vars

\* the last set_design call in the history and the versions held at that moment
LastSet == CHOOSE i \in 1..Len(hist) : hist[i][1] = "set_design" /\ \A j \in (i + 1)..Len(hist) : hist[j][1] # "set_design"
VerAt(i, s) == IF \E j \in 1..(i - 1) : hist[j] = <<"reset", s>> THEN 2 ELSE 1
Expected == [s \in Slots |-> IF s = "flow_type" THEN hist[LastSet][2] ELSE IF s = "flow_rate" THEN hist[LastSet][3] ELSE <<s, VerAt(LastSet, s)>>]

\* C20 (and C13/C17): what the search works with is what the user gave in the LAST set_design call
Forwarded == stage = "searching" => \A s \in Slots \ {"geometry"} : search.args[s] = Expected[s]
DesignHolds == stage # "set" => design = Expected
\* bound to the code by the Search replay (mode RW): the recorded arguments of every generator call of one search are identical
\* and none is a default (harness/judge.py SameGeneratorArguments)
GeneratorGetsUserGeometry == \A i \in 1..Len(gens) : gens[i].geometry = Expected["geometry"]
Emit == (stage = "searching" /\ gens = <<>>) => PrintT(ToJson([geom |-> geom, hist |-> hist, cls |-> search.cls,
                                              flow |-> Expected["flow_type"], rate |-> Expected["flow_rate"],
                                              vers |-> [s \in Replaceable |-> Expected[s][2]]]))
=============================================================================
