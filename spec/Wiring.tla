------------------------------- MODULE Wiring -------------------------------
(***************************************************************************)
(* What travels from the user's setter calls to the search class:          *)
(*   GHEManager.set_design (six near-identical blocks, one per geometry)   *)
(*     -> Design<Geom>.__init__ -> Design<Geom>.find_design                *)
(*     -> Bisection1D | Bisection2D | BisectionZD | RowWise...Search.      *)
(* Every block must forward the same things; a slot dropped in one block   *)
(* silently falls back to a default (e.g. flow_type -> BOREHOLE).          *)
(***************************************************************************)
EXTENDS Integers, Sequences, FiniteSets, TLC, Json

Geoms == {"NEARSQUARE", "RECTANGLE", "BIRECTANGLE", "BIZONEDRECTANGLE", "BIRECTANGLECONSTRAINED", "ROWWISE"}
Flows == {"BOREHOLE", "SYSTEM"}
\* the things the user supplied (identities) that must reach the search unchanged
Slots == {"flow_rate", "flow_type", "borehole", "pipe_type", "fluid", "pipe", "grout", "soil", "sim_params", "loads", "geometry"}

SearchClass(g) == CASE g \in {"NEARSQUARE", "RECTANGLE"} -> "Bisection1D"
                    [] g = "BIRECTANGLE" -> "Bisection2D"
                    [] g \in {"BIZONEDRECTANGLE", "BIRECTANGLECONSTRAINED"} -> "BisectionZD"
                    [] g = "ROWWISE" -> "RowWiseModifiedBisectionSearch"

VARIABLES geom, flow, stage, design, search
vars == <<geom, flow, stage, design, search>>

User == [s \in Slots |-> IF s = "flow_type" THEN flow ELSE <<"user", s>>]

Init == geom \in Geoms /\ flow \in Flows /\ stage = "set" /\ design = <<>> /\ search = <<>>
SetDesign == stage = "set" /\ design' = User /\ stage' = "designed" /\ UNCHANGED <<geom, flow, search>>
FindDesign == /\ stage = "designed"
              /\ search' = [cls |-> SearchClass(geom), args |-> [s \in Slots \ {"geometry"} |-> design[s]], method |-> "HYBRID"]
              /\ stage' = "searching" /\ UNCHANGED <<geom, flow, design>>
Next == SetDesign \/ FindDesign
Spec == Init /\ [][Next]_vars

\* C20 (and C13/C17): what the search works with is what the user gave, for every geometry and both flow types
Forwarded == stage = "searching" => \A s \in Slots \ {"geometry"} : search.args[s] = User[s]
DesignHolds == stage # "set" => \A s \in Slots : design[s] = User[s]
Emit == stage = "searching" => PrintT(ToJson([geom |-> geom, flow |-> flow, cls |-> search.cls]))
=============================================================================
