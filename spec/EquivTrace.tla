----------------------------- MODULE EquivTrace -----------------------------
(***************************************************************************)
(* Batch validation of recorded to_single() conversions against            *)
(* EquivPipe.tla.  The trace file holds many traces; each is a sequence of *)
(* events with measured deviations in ppm (parts per million, integers).   *)
(* Every trace gets a verdict line:  VERDICT <tid> <"ok" | failing clause> *)
(***************************************************************************)
EXTENDS EquivPipe, Json, IOUtils, TLCExt

Traces == JsonDeserialize(IOEnv.TRACE_FILE)

VARIABLES tid, l, fail
tvars == <<stage, ocPipe, ocGrout, volsKept, fpMatched, rbMatched, tid, l, fail>>

Ev == Traces[tid][l]
Abs(x) == IF x < 0 THEN -x ELSE x

TInit == EInit /\ tid = 1 /\ l = 1 /\ fail = "ok"

Note(cond, name) == IF cond \/ fail # "ok" THEN fail ELSE name

\* one step per logged event; the measured fields are bound to the model's abstract flags
TVolumes == /\ Ev.e = "Volumes" /\ Volumes
            \* the resistance the pipe solve aims at is the ORIGINAL exchanger's convective-plus-pipe resistance as documented:
            \*   double-U: 1 / (h_f n pi (2 r_in)^2) + ln(r_out / r_in) / (n 2 pi k_pipe), n = 4 tubes (the tool's definition);
            \*   coaxial : 1 / (h_annulus,outer wall 2 pi r_out_in) + ln(r_out_out / r_out_in) / (2 pi k_OUTER pipe).
            \* target_ppm is the deviation of the tool's target from this definition evaluated by the harness on the raw inputs.
            /\ fail' = IF ~(Abs(Ev.dvf_ppm) <= 1 /\ Abs(Ev.dvp_ppm) <= 1) THEN Note(FALSE, "volumes not preserved")
                       ELSE Note(Abs(Ev.target_ppm) <= 1, "the target of the pipe solve is not the original's convective-plus-pipe resistance")
            /\ l' = l + 1 /\ UNCHANGED tid
TRadii == /\ Ev.e = "Radii" /\ EqualVolumeRadii /\ l' = l + 1 /\ UNCHANGED <<tid, fail>>
TPipeK == /\ Ev.e = "SolvePipeK" /\ SolvePipeK(Ev.oc)
          \* F11 (listed): the bracket k0/100 .. 10 k0 around the preliminary conductivity is fixed; when the conductivity that
          \* reproduces R_f + R_p lies outside it (thick or laminar-flow exchangers) the solve clamps. root_in_bracket is computed
          \* by the harness from the equivalent tube's radii and film resistance. A clamp although the root is inside the
          \* documented bracket is a failure.
          /\ fail' = Note(\/ (Ev.oc = "Bracketed" /\ Abs(Ev.dev_ppm) <= 100)
                          \/ (Ev.oc \in {"ClampHigh", "ClampLow"} /\ ~Ev.root_in_bracket),
                          IF Ev.oc = "Bracketed" THEN "bracketed pipe-conductivity solve does not reproduce R_f + R_p"
                          ELSE "pipe-conductivity solve not bracketed (" \o Ev.oc \o ") although the root lies inside the documented bracket")
          /\ l' = l + 1 /\ UNCHANGED tid
TGroutK == /\ Ev.e = "SolveGroutK" /\ SolveGroutK(Ev.oc)
           /\ fail' = Note(Ev.oc # "Bracketed" \/ Abs(Ev.rb_dev_ppm) <= 1000, "bracketed grout-conductivity solve does not reproduce R_b* within 0.1 %")
           /\ l' = l + 1 /\ UNCHANGED tid
\* end of a trace: verdict, next trace
TEnd == /\ Ev.e = "End"
        /\ LET v == IF fail # "ok" THEN fail
                    ELSE IF stage # "done" THEN "conversion did not run the four steps in order"
                    ELSE IF ~MatchesIffBracketed THEN "MatchesIffBracketed"
                    ELSE IF Known_F11 THEN "known:F11"
                    ELSE IF ~(fpMatched /\ rbMatched) THEN "resistances not matched"
                    ELSE "ok"
           IN PrintT(<<"VERDICT", tid, v>>)
        /\ tid' = tid + 1 /\ l' = 1 /\ fail' = "ok"
        /\ stage' = "start" /\ ocPipe' = "none" /\ ocGrout' = "none" /\ volsKept' = FALSE /\ fpMatched' = FALSE /\ rbMatched' = FALSE
\* an event that no action accepts: reject the trace and move on
TStuck == /\ ~(Ev.e = "Volumes" /\ stage = "start") /\ ~(Ev.e = "Radii" /\ stage = "radii")
          /\ ~(Ev.e = "SolvePipeK" /\ stage = "pipeK" /\ Ev.oc \in Outcomes)
          /\ ~(Ev.e = "SolveGroutK" /\ stage = "groutK" /\ Ev.oc \in Outcomes) /\ Ev.e # "End"
          /\ PrintT(<<"VERDICT", tid, "event " \o Ev.e \o " not allowed in stage " \o stage
                                    \o (IF Ev.e \in {"SolvePipeK", "SolveGroutK"} /\ Ev.oc \notin Outcomes THEN " (the solve did not run)" ELSE "")>>)
          /\ tid' = tid + 1 /\ l' = 1 /\ fail' = "ok"
          /\ stage' = "start" /\ ocPipe' = "none" /\ ocGrout' = "none" /\ volsKept' = FALSE /\ fpMatched' = FALSE /\ rbMatched' = FALSE

TNext == tid <= Len(Traces) /\ (TVolumes \/ TRadii \/ TPipeK \/ TGroutK \/ TEnd \/ TStuck)
TSpec == TInit /\ [][TNext]_tvars
AllConsumed == TLCGet("stats").diameter >= 1
=============================================================================
