----------------------------- MODULE InputFile -----------------------------
(***************************************************************************)
(* GHEManager.write_input_file / the to_input methods, the schemas, and    *)
(* the command-line loader (_run_manager_from_cli_worker) at the level of  *)
(* sections, keys and enumerated names.  The schema facts (required keys,  *)
(* admissible keys, enumerations) come from SchemaData.tla, which the      *)
(* harness regenerates from ghedesigner/schemas/*.json on every run.       *)
(***************************************************************************)
EXTENDS Integers, Sequences, FiniteSets, TLC, Json, SchemaData

CONSTANTS Fixed      \* {"F5"}: RowWise without a perimeter ratio leaves the key out (and the schema does not require it)

Methods == {"NEARSQUARE", "RECTANGLE", "BIRECTANGLE", "BIZONEDRECTANGLE", "BIRECTANGLECONSTRAINED", "ROWWISE"}
Pipes == {"SINGLEUTUBE", "DOUBLEUTUBEPARALLEL", "DOUBLEUTUBESERIES", "COAXIAL"}
Fluids == {"WATER", "ETHYLALCOHOL", "ETHYLENEGLYCOL", "METHYLALCOHOL", "PROPYLENEGLYCOL"}
Flows == {"BOREHOLE", "SYSTEM"}

Configs == [method : Methods, perimeter : BOOLEAN, pipe : Pipes, fluid : Fluids, flow : Flows, maxbh : BOOLEAN, cont : BOOLEAN]

VARIABLES cfg, file, loaded, stage
vars == <<cfg, file, loaded, stage>>

\* ---- to_input ----------------------------------------------------------------------------------
GeoKeys(c) ==
  {"max_height", "min_height", "method"} \cup
  CASE c.method = "NEARSQUARE" -> {"length", "b"}
    [] c.method = "RECTANGLE" -> {"length", "width", "b_min", "b_max"}
    [] c.method \in {"BIRECTANGLE", "BIZONEDRECTANGLE"} -> {"length", "width", "b_min", "b_max_x", "b_max_y"}
    [] c.method = "BIRECTANGLECONSTRAINED" -> {"b_min", "b_max_x", "b_max_y", "property_boundary", "no_go_boundaries"}
    [] c.method = "ROWWISE" ->
         {"min_spacing", "max_spacing", "spacing_step", "min_rotation", "max_rotation", "rotate_step", "property_boundary", "no_go_boundaries"}
         \cup (IF c.perimeter \/ "F5" \notin Fixed THEN {"perimeter_spacing_ratio"} ELSE {})
\* the value class of the perimeter key: a number, or null when no ratio is set (unrepaired)
PerimeterIsNull(c) == c.method = "ROWWISE" /\ ~c.perimeter /\ "F5" \notin Fixed

PipeKeys(c) == {"rho_cp", "roughness", "arrangement"} \cup
  (IF c.pipe = "COAXIAL"
   THEN {"inner_pipe_d_in", "inner_pipe_d_out", "outer_pipe_d_in", "outer_pipe_d_out", "conductivity_inner", "conductivity_outer"}
   ELSE {"inner_diameter", "outer_diameter", "shank_spacing", "conductivity"})

DesignKeys(c) == {"flow_rate", "flow_type", "max_eft", "min_eft"}
                 \cup (IF c.maxbh THEN {"max_boreholes"} ELSE {}) \cup (IF c.cont THEN {"continue_if_design_unmet"} ELSE {})

ToInput(c) ==
  [version |-> {"version"},
   fluid |-> {"fluid_name", "concentration_percent", "temperature"},
   grout |-> {"conductivity", "rho_cp"},
   soil |-> {"conductivity", "rho_cp", "undisturbed_temp"},
   pipe |-> PipeKeys(c),
   borehole |-> {"buried_depth", "diameter"},
   simulation |-> {"num_months"},
   geometric_constraints |-> GeoKeys(c),
   design |-> DesignKeys(c),
   loads |-> {"ground_loads"}]

\* ---- validate_input_file --------------------------------------------------------------------
GeoSchema(c) == CASE c.method = "NEARSQUARE" -> "geometric_near_square"
                  [] c.method = "RECTANGLE" -> "geometric_rectangle"
                  [] c.method = "BIRECTANGLE" -> "geometric_bi_rectangle"
                  [] c.method = "BIZONEDRECTANGLE" -> "geometric_bi_zoned_rectangle"
                  [] c.method = "BIRECTANGLECONSTRAINED" -> "geometric_bi_rectangle_constrained"
                  [] c.method = "ROWWISE" -> "geometric_rowwise"
PipeSchema(c) == IF c.pipe = "COAXIAL" THEN "pipe_coaxial" ELSE "pipe_single_double_u_tube"

SectionOK(schema, keys) == SchemaRequired[schema] \subseteq keys      \* (additional properties are allowed by the schemas)

Valid(c, f) ==
  /\ SchemaRequired["file_structure"] \subseteq {"version", "fluid", "grout", "soil", "pipe", "borehole", "simulation", "geometric_constraints", "design", "loads"}
  /\ SectionOK("fluid", f.fluid) /\ c.fluid \in SchemaEnum["fluid.fluid_name"]
  /\ SectionOK("grout", f.grout) /\ SectionOK("soil", f.soil)
  /\ SectionOK(PipeSchema(c), f.pipe) /\ c.pipe \in SchemaEnum[PipeSchema(c) \o ".arrangement"]
  /\ SectionOK("borehole", f.borehole) /\ SectionOK("simulation", f.simulation)
  /\ SectionOK(GeoSchema(c), f.geometric_constraints)
  /\ ~PerimeterIsNull(c)                                         \* null is not a number
  /\ SectionOK("design", f.design) /\ c.flow \in SchemaEnum["design.flow_type"]

\* ---- the loader: which configuration the setter calls reconstruct ------------------------------
Load(c, f) ==
  [method |-> c.method,
   perimeter |-> (c.method = "ROWWISE" /\ "perimeter_spacing_ratio" \in f.geometric_constraints /\ ~PerimeterIsNull(c)),
   pipe |-> c.pipe, fluid |-> c.fluid, flow |-> c.flow,
   maxbh |-> ("max_boreholes" \in f.design), cont |-> ("continue_if_design_unmet" \in f.design)]

Canon(c) == IF c.method = "ROWWISE" THEN c ELSE [c EXCEPT !.perimeter = FALSE]

Init == cfg \in {c \in Configs : c = Canon(c)} /\ file = <<>> /\ loaded = <<>> /\ stage = "built"
Write == stage = "built" /\ file' = ToInput(cfg) /\ stage' = "written" /\ UNCHANGED <<cfg, loaded>>
Read == stage = "written" /\ loaded' = Load(cfg, file) /\ stage' = "loaded" /\ UNCHANGED <<cfg, file>>
Next == Write \/ Read
Spec == Init /\ [][Next]_vars

WrittenIsValid == stage # "built" => Valid(cfg, file)
RoundTrip == stage = "loaded" => loaded = cfg
WriteIsIdempotent == stage = "loaded" => ToInput(loaded) = file
Known_F5 == cfg.method = "ROWWISE" /\ ~cfg.perimeter

Emit == stage = "loaded" => PrintT(ToJson([cfg |-> cfg, keys |-> file]))
=============================================================================
