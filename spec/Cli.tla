-------------------------------- MODULE Cli --------------------------------
(***************************************************************************)
(* The command-line entry point (manager.run_manager_from_cli and its      *)
(* worker) as a decision machine: Parse -> ValidateOnly | Convert |        *)
(* RequireOutDir -> Worker.Validate -> Worker.Run -> Exit(code).           *)
(***************************************************************************)
EXTENDS Integers, Sequences, FiniteSets, TLC, Json

CONSTANTS Fixed      \* {"F1"}: the status returned by the callback becomes the exit status

Cases == [valid : BOOLEAN,          \* the input file satisfies every section schema
          vonly : BOOLEAN,          \* --validate-only
          convert : {"none", "IDF", "other"},
          outdir : BOOLEAN,         \* output directory argument given
          designOK : BOOLEAN,       \* the design run completes (no exception)
          incomplete : BOOLEAN,     \* schema-valid input the manager cannot design from (empty load list): find_design(throw=False) reports 1, raises nothing
          summaryOK : BOOLEAN]      \* --convert IDF: the given path is a simulation summary with its g-function file

VARIABLES case, pc, ret, outputs, idf
vars == <<case, pc, ret, outputs, idf>>

Init == case \in Cases /\ pc = "Parse" /\ ret = -1 /\ outputs = FALSE /\ idf = FALSE

Parse == /\ pc = "Parse"
         /\ pc' = IF case.vonly THEN "ValidateOnly" ELSE IF case.convert # "none" THEN "Convert" ELSE "RequireOutDir"
         /\ UNCHANGED <<case, ret, outputs, idf>>
\* unrepaired: the error count of validate_input_file is ignored (only an exception that is never raised is caught)
ValidateOnly == /\ pc = "ValidateOnly"
                /\ ret' = IF "F1" \in Fixed THEN (IF case.valid THEN 0 ELSE 1) ELSE 0
                /\ pc' = "Exit" /\ UNCHANGED <<case, outputs, idf>>
Convert == /\ pc = "Convert"
           /\ IF case.convert = "IDF"
              THEN (IF case.summaryOK THEN ret' = 0 /\ idf' = TRUE ELSE ret' = 1 /\ idf' = FALSE)
              ELSE ret' = 1 /\ idf' = FALSE
           /\ pc' = "Exit" /\ UNCHANGED <<case, outputs>>
RequireOutDir == /\ pc = "RequireOutDir"
                 /\ IF case.outdir THEN pc' = "WorkerValidate" /\ UNCHANGED ret ELSE pc' = "Exit" /\ ret' = 1
                 /\ UNCHANGED <<case, outputs, idf>>
WorkerValidate == /\ pc = "WorkerValidate"
                  /\ IF case.valid THEN pc' = "WorkerRun" /\ UNCHANGED ret ELSE pc' = "Exit" /\ ret' = 1
                  /\ UNCHANGED <<case, outputs, idf>>
\* an exception in the design run leaves through the interpreter (traceback, status 1) before anything is written
\* an incomplete manager reports a status the worker does not look at; the reporting step that follows has no search to report and raises
WorkerRun == /\ pc = "WorkerRun"
             /\ IF case.designOK /\ ~case.incomplete THEN outputs' = TRUE /\ ret' = 0 /\ pc' = "Exit"
                                 ELSE outputs' = FALSE /\ ret' = 1 /\ pc' = "Crash"
             /\ UNCHANGED <<case, idf>>
Next == Parse \/ ValidateOnly \/ Convert \/ RequireOutDir \/ WorkerValidate \/ WorkerRun
Spec == Init /\ [][Next]_vars

Done == pc \in {"Exit", "Crash"}
\* click's standalone mode ignores the callback's return value: unrepaired, every "Exit" is status 0
ExitCode == IF pc = "Crash" THEN 1 ELSE IF "F1" \in Fixed THEN ret ELSE 0

Failure == \/ (~case.valid /\ (case.vonly \/ case.convert = "none"))
           \/ (~case.vonly /\ case.convert = "other")
           \/ (~case.vonly /\ case.convert = "none" /\ ~outputs)
NonZeroOnFailure == (Done /\ Failure) => ExitCode # 0
ZeroOnlyWithOutputs == (Done /\ ExitCode = 0) => (outputs \/ idf \/ (case.vonly /\ case.valid))
ZeroWhenFine == (Done /\ ((case.vonly /\ case.valid) \/ outputs \/ idf)) => ExitCode = 0

Emit == Done => PrintT(ToJson([case |-> case, exit |-> ExitCode, outputs |-> outputs, idf |-> idf]))
=============================================================================
