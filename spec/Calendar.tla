------------------------------ MODULE Calendar ------------------------------
(***************************************************************************)
(* Non-leap calendar used by ground_loads.py and output.py: the reference  *)
(* definitions, and transcriptions of the code's helpers with their quirks *)
(* (13-entry month table indexed with month % 12, 1-based first hour,      *)
(* special case for month 1, running-sum time conversion).                 *)
(* TLC checks transcription = reference on the whole domain and prints the *)
(* tables that the real functions are replayed against.                    *)
(***************************************************************************)
EXTENDS Integers, Sequences, FiniteSets, TLC, Json

DaysRef == <<31, 28, 31, 30, 31, 30, 31, 31, 30, 31, 30, 31>>
Moy(i) == ((i - 1) % 12) + 1                      \* month of year of horizon month i >= 1
Days(i) == DaysRef[Moy(i)]

RECURSIVE SumDays(_)
SumDays(i) == IF i = 0 THEN 0 ELSE SumDays(i - 1) + Days(i)

MonthEndRef(i) == 24 * SumDays(i)                 \* last hour of month i (hours since start)
MonthStartRef(i) == 24 * SumDays(i - 1)

\* ---- transcription of ground_loads.monthdays / first_month_hour / last_month_hour (single year list) ----
NumDays13 == <<31, 31, 28, 31, 30, 31, 30, 31, 31, 30, 31, 30, 31>>      \* index 0..12, 0 = December
MonthDaysCode(month) == LET md == IF month > 12 THEN month % 12 ELSE month IN NumDays13[md + 1]

RECURSIVE FmhLoop(_, _)
FmhLoop(i, month) == IF i >= month THEN 0 ELSE 24 * MonthDaysCode(i % 12) + FmhLoop(i + 1, month)
FirstMonthHourCode(month) == 1 + (IF month > 1 THEN FmhLoop(1, month) ELSE 0)

RECURSIVE LmhLoop(_, _)
LmhLoop(i, month) == IF i > month THEN 0 ELSE 24 * MonthDaysCode(i) + LmhLoop(i + 1, month)
LastMonthHourCode(month) == IF month = 1 THEN 31 * 24 ELSE LmhLoop(1, month)

\* ---- output.ghe_time_convert : hour of year (0-based) -> (month, day, hour), all 1-based ----
HoursInMonth(m) == 24 * DaysRef[m]
RECURSIVE YearSumTo(_)
YearSumTo(m) == IF m = 0 THEN 0 ELSE YearSumTo(m - 1) + HoursInMonth(m)

HourToMDHRef(h) ==
  LET m == CHOOSE mm \in 1..12 : YearSumTo(mm - 1) <= h /\ h < YearSumTo(mm)
      hl == h - YearSumTo(m - 1)
  IN <<m, (hl \div 24) + 1, (hl % 24) + 1>>

\* the code: walk the months with a running sum, break when year_hour_sum + hours_in_year[idx] - 1 >= hours;
\* if no month matches (hours >= 8760) month_in_year stays 0
RECURSIVE GtcWalk(_, _, _)
GtcWalk(idx, ysum, hours) ==
  IF idx > 12 THEN 1
  ELSE IF ysum + HoursInMonth(idx) - 1 >= hours THEN idx
  ELSE GtcWalk(idx + 1, ysum + HoursInMonth(idx), hours)
GheTimeConvertCode(hours) ==
  LET m == GtcWalk(1, 0, hours)
      hl == hours - YearSumTo(m - 1)
  IN <<m, (hl \div 24) + 1, (hl % 24) + 1>>

\* ---- output.hours_to_month : elapsed hours -> fractional months, as the rational <<whole, num, den>> ----
\* reference: month ends at integers, linear inside a month
HoursToMonthRef(q, qden) ==        \* time = q / qden hours, q >= 0
  LET yh == 8760 * qden
      ny == q \div yh
      rem == q - ny * yh
      m == IF rem = 0 THEN 0 ELSE CHOOSE mm \in 0..11 : YearSumTo(mm) * qden < rem /\ rem <= YearSumTo(mm + 1) * qden
  IN <<ny * 12 + m, rem - YearSumTo(m) * qden, HoursInMonth(m + 1) * qden>>

\* the code: n_years = floor(hours / 8760); first idx with sum(hours_in_year[0:idx+1]) >= hours_left
RECURSIVE HtmWalk(_, _, _)
HtmWalk(idx, rem, qden) ==
  IF idx > 11 THEN 0
  ELSE IF YearSumTo(idx + 1) * qden >= rem THEN idx ELSE HtmWalk(idx + 1, rem, qden)
HoursToMonthCode(q, qden) ==
  LET yh == 8760 * qden
      ny == q \div yh
      rem == q - ny * yh
      m == HtmWalk(0, rem, qden)
  IN <<ny * 12 + m, rem - YearSumTo(m) * qden, HoursInMonth(m + 1) * qden>>

\* order on <<whole, num, den>> with 0 <= num <= den (value = whole + num/den); avoids 32-bit overflow
RatLeq(a, b) == a[1] < b[1] \/ (a[1] = b[1] /\ a[2] * b[3] <= b[2] * a[3])

-----------------------------------------------------------------------------
(* A trivial state machine so that TLC walks the domains; one state per point *)
CONSTANTS MaxMonth, MaxHour, GridDen, GridMax   \* months 1..MaxMonth, hours 0..MaxHour, grid q/GridDen for q in 0..GridMax
VARIABLES k, stage
cvars == <<k, stage>>

CInit == k = 1 /\ stage = "months"
CNext ==
  \/ stage = "months" /\ k < MaxMonth /\ k' = k + 1 /\ UNCHANGED stage
  \/ stage = "months" /\ k = MaxMonth /\ k' = 0 /\ stage' = "hours"
  \/ stage = "hours" /\ k < MaxHour /\ k' = k + 1 /\ UNCHANGED stage
  \/ stage = "hours" /\ k = MaxHour /\ k' = 0 /\ stage' = "grid"
  \/ stage = "grid" /\ k < GridMax /\ k' = k + 1 /\ UNCHANGED stage

\* C08 : the helpers the hybrid time axis is built from are exact
MonthHelpersExact ==
  stage = "months" =>
     /\ MonthDaysCode(k) = Days(k)
     /\ FirstMonthHourCode(k) = MonthStartRef(k) + 1
     /\ LastMonthHourCode(k) = MonthEndRef(k)

\* C19 : hour-of-year labels
TimeConvertExact == stage = "hours" => GheTimeConvertCode(k) = HourToMDHRef(k)

\* C19 : fractional months: code = reference, month ends at integers, monotone, continuous
HoursToMonthExact == stage = "grid" => HoursToMonthCode(k, GridDen) = HoursToMonthRef(k, GridDen)
HoursToMonthMonotone ==
  (stage = "grid" /\ k > 0) => RatLeq(HoursToMonthCode(k - 1, GridDen), HoursToMonthCode(k, GridDen))
HoursToMonthContinuous ==   \* one grid step (1/GridDen h) moves the result by at most (1/GridDen) / 672 months
  (stage = "grid" /\ k > 0) =>
     LET a == HoursToMonthCode(k - 1, GridDen)  b == HoursToMonthCode(k, GridDen) IN
     IF a[1] = b[1] THEN (b[2] - a[2]) * 672 * GridDen <= a[3]
     ELSE /\ b[1] = a[1] + 1
          /\ ((a[3] - a[2]) * b[3] + b[2] * a[3]) * 672 * GridDen <= a[3] * b[3]
MonthEndsAtIntegers ==
  stage = "months" => LET r == HoursToMonthCode(MonthEndRef(k) * GridDen, GridDen) IN r[2] = r[3] \/ r[2] = 0

\* ---- ground_loads.process_two_day_loads : the 48 hours (day before + day of) around a monthly peak day ----
\* month m (1..12), peak day d (0-based day of the month); hour-of-year indices 0..8759, wrapping to 31 December for 1 January
WindowStart(m, d) == YearSumTo(m - 1) + (d - 1) * 24            \* may be -24
TwoDayWindow(m, d) == [j \in 1..48 |-> LET h == WindowStart(m, d) + j - 1 IN IF h < 0 THEN h + 8760 ELSE h]
WindowOK == stage = "months" /\ k <= 12 =>
   \A d \in 0..(DaysRef[k] - 1) :
      LET w == TwoDayWindow(k, d) IN
      /\ \A j \in 1..47 : w[j + 1] = (w[j] + 1) % 8760                        \* consecutive hours
      /\ w[48] = YearSumTo(k - 1) + d * 24 + 23                                \* ends with the last hour of the peak day
      /\ (w[1] > w[48]) = (k = 1 /\ d = 0)                                      \* wraps only for 1 January
EmitWindows == (stage = "months" /\ k <= 12) =>
   PrintT(ToJson([t |-> "window", m |-> k, first |-> [d \in 0..(DaysRef[k] - 1) |-> TwoDayWindow(k, d)[1]],
                  last |-> [d \in 0..(DaysRef[k] - 1) |-> TwoDayWindow(k, d)[48]]]))

\* tables for the replay into the real functions
EmitMonths == stage = "months" => PrintT(ToJson([t |-> "month", m |-> k, days |-> Days(k), first |-> MonthStartRef(k) + 1, last |-> MonthEndRef(k)]))
EmitHours == stage = "hours" => PrintT(ToJson([t |-> "hour", h |-> k, mdh |-> HourToMDHRef(k)]))
EmitGrid == stage = "grid" => PrintT(ToJson([t |-> "grid", q |-> k, r |-> HoursToMonthRef(k, GridDen)]))
=============================================================================
