------------------------- MODULE SearchRefinesBisect -------------------------
(* Binds the TLAPS-proved loop (BisectProof.tla, arbitrary list length) to the bounded model of the code (Search.tla): *)
(* under the mapping below every step of Search.tla is a step of BisectProof or leaves its variables unchanged         *)
(* (PROPERTY BisectRefines, checked by TLC on the 1D / 2D / ZD configurations). So the structure that the proof talks  *)
(* about is the structure that is replayed into Bisection1D.search.                                                    *)
EXTENDS Search

InLoop == branch = "Bisect" /\ pc = "S_loop"
AfterLoop == branch = "Bisect" /\ pc \in {"S_extra", "S_pick", "S_ret"} /\ Mid \in {xl, xr}

bp_st == IF InLoop THEN "loop" ELSE IF AfterLoop THEN "done" ELSE "idle"
bp_keys == {calc[j][1] : j \in 1..Len(calc)}
bp_seen == [i \in bp_keys |-> Sign(Get(calc, i))]

BP == INSTANCE BisectProof WITH st <- bp_st, seen <- bp_seen

\* TLC cannot enumerate Nat: the Enter step is looked for among the list positions of the bounded model. This only
\* strengthens the claim (BPNext => BP!Next because 0..MaxPos is a subset of Nat).
MaxPos == 4096
BPNext == (\E r \in 0..Len(dom), s \in {-1, 1} : BP!Enter(r, s)) \/ (\E s \in {-1, 1} : BP!Step(s)) \/ BP!Exit \/ BP!Reset
BisectRefines == BP!Init /\ [][BPNext]_BP!vars
BisectInv == BP!Inv
BisectAdjacent == BP!Adjacent
=============================================================================
