------------------------------- MODULE Search -------------------------------
(***************************************************************************)
(* The four design searches of ghedesigner/search_routines.py, the sizing  *)
(* step of ghedesigner/ground_heat_exchangers.py (GHE.size) with           *)
(* utilities.solve_root, and the tail of GHEManager.find_design, written   *)
(* action-by-action like the code.  The physics (one simulation of one     *)
(* field at one height) is an ORACLE chosen lazily and memoised: the first *)
(* time <<field, level>> is evaluated a value is picked from Vals, later   *)
(* evaluations of the same pair return the same value.  TLC therefore      *)
(* explores every sign pattern / threshold position / sizing outcome the   *)
(* control code can distinguish.                                           *)
(*                                                                         *)
(* Indices follow the code (0-based) where the code uses them as dict keys *)
(* (calc, selKey); sequences are 1-based TLA+ sequences.                   *)
(***************************************************************************)
EXTENDS Integers, Sequences, FiniteSets, TLC, Json

CONSTANTS
  Mode,        \* "1D" (Bisection1D) | "2D" (Bisection2D) | "ZD" (BisectionZD) | "RW" (RowWise)
  Configs,     \* set of [lists |-> <<counts...>>, cap |-> 0 (none) or n, cont |-> BOOLEAN, flow |-> "BOREHOLE"|"SYSTEM"]
  Vals,        \* excess values an evaluation at maximum height may return
  MinVals,     \* excess values an evaluation at minimum height may return
  RootLevels,  \* heights a bracketed solve_root may return (strictly between Hmin and Hmax)
  MaxIter,     \* max_iter of the search (15 for Bisection*, 10 for RowWise)
  Hmin, Hmax,  \* height window (integers)
  RWGrid,      \* RowWise: number of dyadic spacing cells between min_spacing (0) and max_spacing (RWGrid)
  RWCounts,    \* RowWise: borehole counts the field generator may return
  RWTail,      \* RowWise: number of spacings in the exhaustive tail (10 or 11)
  RWDev,       \* RowWise: bound on non-default oracle answers in the tail (state-space control)
  RWMonotone,  \* RowWise: the generator's count is non-increasing in the spacing (state-space control; FALSE for recorded real runs)
  Fixed        \* set of defect ids modelled as repaired: "F3" (re-simulate after sizing), "F8", "F10" (covers F12), "F13"

VARIABLES
  cfg,       \* the configuration picked in Init
  pc, ret,   \* program counter, and where Bisection1D.search returns to
  dom,       \* self.coordinates_domain : sequence of field ids
  dlen,      \* len(self.fieldDescriptors) available for dom (IndexError beyond it)
  xl, xr, it, lsign, t0l, t0u, tm1,
  calc,      \* self.calculated_temperatures : sequence of <<key0, value>> in insertion order
  memo,      \* the oracle
  log,       \* every initialize_ghe / simulate / compute_g / size step in order
  live,      \* <<field, H>> : field of self.ghe and the current bhe.b.H
  lastSim,   \* <<field, H>> that hp_eft describes
  gfam,      \* "single" | "triple"
  branch, escape, selKey, outcome,
  phase, selOuter, li, oldH, heights, calcNested, selKeys,
  \* RowWise
  sLow, sHigh, sMid, eLow, eHigh, rwSel, rwBest, rwBestDrill, tk, nMax, nMin, nStart, devs

vars == <<cfg, pc, ret, dom, dlen, xl, xr, it, lsign, t0l, t0u, tm1, calc, memo, log, live, lastSim, gfam,
          branch, escape, selKey, outcome, phase, selOuter, li, oldH, heights, calcNested, selKeys,
          sLow, sHigh, sMid, eLow, eHigh, rwSel, rwBest, rwBestDrill, tk, nMax, nMin, nStart, devs>>

searchVars == <<xl, xr, it, lsign, t0l, t0u, tm1, calc, branch, selKey>>
nestVars   == <<phase, selOuter, li, oldH, heights, calcNested, selKeys>>
rwVars     == <<sLow, sHigh, sMid, eLow, eHigh, rwSel, rwBest, rwBestDrill, tk, nMax, nMin, nStart, devs>>

None == <<>>
Hmid == (Hmin + Hmax) \div 2

SetMax(S) == CHOOSE x \in S : \A y \in S : y <= x
SetMin(S) == CHOOSE x \in S : \A y \in S : x <= y
Sign(v) == IF v > 0 THEN 1 ELSE IF v < 0 THEN -1 ELSE 0
Bracket(a, b) == (a < 0 /\ 0 < b) \/ (b < 0 /\ 0 < a)          \* check_bracket on signs

Lvl(h) == IF h = Hmin THEN "min" ELSE IF h = Hmax THEN "max" ELSE "root"

\* ---- ordered dict helpers -------------------------------------------------------------------
Keys(c)   == [i \in 1..Len(c) |-> c[i][1]]
Values(c) == [i \in 1..Len(c) |-> c[i][2]]
HasKey(c, k) == \E i \in 1..Len(c) : c[i][1] = k
Get(c, k) == c[CHOOSE i \in 1..Len(c) : c[i][1] = k][2]
Put(c, k, v) == IF HasKey(c, k)
                THEN [i \in 1..Len(c) |-> IF c[i][1] = k THEN <<k, v>> ELSE c[i]]
                ELSE Append(c, <<k, v>>)
FirstIdxWithValue(c, v) == SetMin({i \in 1..Len(c) : c[i][2] = v})

\* ---- fields ---------------------------------------------------------------------------------
\* list modes: field id <<j, i>> (list j, position i, both 1-based).
\* RowWise: <<"s", a, k>> field generated for spacing cell a (0..RWGrid) + k tail steps;
\*          <<"r", n, 0>> the n boreholes of the lower field closest to its first borehole; <<"one">> the 1X1 probe.
Cnt(f) == IF Mode # "RW" THEN cfg.lists[f[1]][f[2]]
          ELSE IF f[1] = "one" THEN 1
          ELSE IF f[1] = "r" THEN f[2]
          ELSE memo[<<f, "cnt">>]

\* Physically identical fields must get identical oracle answers: every single-borehole field is the same
\* field wherever it sits (list modes: the 1x1 start of every list; RowWise: the 1X1 probe and the last kept borehole).
PhysKey(f) == IF Mode # "RW" THEN (IF cfg.lists[f[1]][f[2]] = 1 THEN <<1, 1>> ELSE f)
              ELSE IF f = <<"r", 1, 0>> THEN <<"one">> ELSE f

\* C20: what retrieve_flow hands to GHE (system volumetric flow) and to the g-function call
\* (per-borehole mass flow, as the rational num/den in units of V*rho/1000).
FlowOf(f) == IF cfg.flow = "BOREHOLE" THEN [vsysMul |-> Cnt(f), mDiv |-> 1]
                                      ELSE [vsysMul |-> 1, mDiv |-> Cnt(f)]

\* Distinct fields never size to bit-identical heights: a bracketed root is the oracle's level plus a
\* field-specific offset (heights are integers in millimetres), so drilling comparisons have no accidental ties.
Code(f) == IF Mode # "RW" THEN f[1] * 8 + f[2]
           ELSE IF f[1] = "one" THEN 0 ELSE IF f[1] = "r" THEN f[2] ELSE f[2] * 16 + f[3] + 1

\* ---- the oracle -----------------------------------------------------------------------------
Ask(key, v, S) == /\ v \in S
                  /\ IF key \in DOMAIN memo THEN v = memo[key] /\ UNCHANGED memo
                                            ELSE memo' = memo @@ (key :> v)

ExcessAt(f, h) == IF h = Hmin THEN memo[<<PhysKey(f), "min">>] ELSE IF h = Hmax THEN memo[<<PhysKey(f), "max">>] ELSE 0

EvSim(f, h, v)  == [e |-> "eval", f |-> f, h |-> h, v |-> v, n |-> Cnt(f), flow |-> FlowOf(f)]
EvInit(f, h)    == [e |-> "init", f |-> f, h |-> h, n |-> Cnt(f), flow |-> FlowOf(f)]

\* calculate_excess(field, h): initialize_ghe + simulate + cost + searchTracker row
DoEval(f, h, v) ==
  /\ Ask(<<PhysKey(f), Lvl(h)>>, v, IF h = Hmin THEN MinVals ELSE Vals)
  /\ log' = Append(log, EvSim(f, h, v))
  /\ live' = <<f, h>> /\ lastSim' = <<f, h>> /\ gfam' = "single"

DoInit(f, h) ==
  /\ log' = Append(log, EvInit(f, h))
  /\ live' = <<f, h>> /\ lastSim' = None /\ gfam' = "single"

Raise(type, msg) == [k |-> "raise", type |-> type, msg |-> msg]
Selected(key, f) == [k |-> "sel", key |-> key, f |-> f]

\* An exception leaving Bisection1D.search: search_successive swallows ValueError.
Throw(type, msg) ==
  IF type = "ValueError" /\ phase = "succ" /\ ret = "Z_after"
  THEN pc' = "Z_pick" /\ UNCHANGED outcome
  ELSE pc' = "Done" /\ outcome' = Raise(type, msg)

-----------------------------------------------------------------------------
(* Bisection1D.search *)

S_cap ==
  /\ pc = "S_cap"
  /\ xl' = 0 /\ it' = 0 /\ branch' = "none"
  /\ IF cfg.cap = 0
     THEN xr' = Len(dom) - 1 /\ pc' = "S_e1" /\ UNCHANGED outcome
     ELSE LET ok == {i \in 1..Len(dom) : Cnt(dom[i]) < cfg.cap} IN
          IF ok = {} THEN xr' = xr /\ Throw("IndexError", "list index out of range")
                     ELSE xr' = SetMax(ok) - 1 /\ pc' = "S_e1" /\ UNCHANGED outcome
  /\ UNCHANGED <<cfg, ret, dom, dlen, lsign, t0l, t0u, tm1, calc, memo, log, live, lastSim, gfam, escape, selKey>>
  /\ UNCHANGED nestVars /\ UNCHANGED rwVars

S_e1 ==   \* t_0_lower : smallest field, minimum height
  /\ pc = "S_e1"
  /\ IF dlen < 1 THEN Throw("IndexError", "list index out of range") /\ UNCHANGED <<t0l, memo, log, live, lastSim, gfam>>
     ELSE \E v \in MinVals : DoEval(dom[1], Hmin, v) /\ t0l' = v /\ pc' = "S_e2" /\ UNCHANGED outcome
  /\ UNCHANGED <<cfg, ret, dom, dlen, xl, xr, it, lsign, t0u, tm1, calc, branch, escape, selKey>>
  /\ UNCHANGED nestVars /\ UNCHANGED rwVars

S_e2 ==   \* t_0_upper : smallest field, maximum height
  /\ pc = "S_e2"
  /\ \E v \in Vals : DoEval(dom[1], Hmax, v) /\ t0u' = v
  /\ pc' = "S_e3"
  /\ UNCHANGED <<cfg, ret, dom, dlen, xl, xr, it, lsign, t0l, tm1, calc, branch, escape, selKey, outcome>>
  /\ UNCHANGED nestVars /\ UNCHANGED rwVars

S_e3 ==   \* t_m1 : largest allowed field, maximum height
  /\ pc = "S_e3"
  /\ IF xr + 1 > dlen
     THEN Throw("IndexError", "list index out of range") /\ UNCHANGED <<tm1, calc, memo, log, live, lastSim, gfam>>
     ELSE \E v \in Vals :
            /\ DoEval(dom[xr + 1], Hmax, v) /\ tm1' = v
            /\ calc' = Put(Put(calc, xl, t0u), xr, v)
            /\ pc' = "S_branch" /\ UNCHANGED outcome
  /\ UNCHANGED <<cfg, ret, dom, dlen, xl, xr, it, lsign, t0l, t0u, branch, escape, selKey>>
  /\ UNCHANGED nestVars /\ UNCHANGED rwVars

S_branch ==
  /\ pc = "S_branch"
  /\ IF t0l = 0 \/ t0u = 0
     THEN /\ Throw("ZeroDivisionError", "float division by zero")
          /\ UNCHANGED <<branch, escape, selKey, lsign, log, live, lastSim, gfam>>
     ELSE IF Bracket(Sign(t0l), Sign(t0u))
     THEN /\ branch' = "BracketLower" /\ DoInit(dom[xl + 1], Hmax)
          /\ selKey' = xl /\ pc' = "S_ret" /\ UNCHANGED <<escape, lsign, outcome>>
     ELSE IF tm1 = 0
     THEN /\ Throw("ZeroDivisionError", "float division by zero")
          /\ UNCHANGED <<branch, escape, selKey, lsign, log, live, lastSim, gfam>>
     ELSE IF Bracket(Sign(t0u), Sign(tm1))
     THEN /\ branch' = "Bisect" /\ lsign' = Sign(t0u) /\ pc' = "S_loop"
          /\ UNCHANGED <<escape, selKey, outcome, log, live, lastSim, gfam>>
     ELSE IF t0l < 0
     THEN /\ branch' = "TooSmall"
          /\ IF cfg.cont
             THEN /\ DoInit(dom[xl + 1], Hmin) /\ selKey' = xl /\ escape' = TRUE /\ pc' = "S_ret"
                  /\ UNCHANGED <<lsign, outcome>>
             ELSE /\ Throw("ValueError", "Search failed.")
                  /\ UNCHANGED <<escape, selKey, lsign, log, live, lastSim, gfam>>
     ELSE IF tm1 > 0
     THEN /\ branch' = "TooBig"
          /\ IF cfg.cont
             THEN /\ DoInit(dom[xr + 1], Hmax) /\ selKey' = xr /\ escape' = TRUE /\ pc' = "S_ret"
                  /\ UNCHANGED <<lsign, outcome>>
             ELSE /\ Throw("ValueError", "Search failed.")
                  /\ UNCHANGED <<escape, selKey, lsign, log, live, lastSim, gfam>>
     ELSE /\ branch' = "Unreachable" /\ lsign' = Sign(t0u) /\ pc' = "S_loop"
          /\ UNCHANGED <<escape, selKey, outcome, log, live, lastSim, gfam>>
  /\ UNCHANGED <<cfg, ret, dom, dlen, xl, xr, it, t0l, t0u, tm1, calc, memo>>
  /\ UNCHANGED nestVars /\ UNCHANGED rwVars

Mid == (xl + xr + 1) \div 2      \* ceil((x_l_idx + x_r_idx) / 2)

S_loop ==
  /\ pc = "S_loop"
  /\ IF it < MaxIter /\ Mid \notin {xl, xr}
     THEN IF Mid + 1 > dlen
          THEN /\ Throw("IndexError", "list index out of range")
               /\ UNCHANGED <<xl, xr, it, calc, memo, log, live, lastSim, gfam>>
          ELSE \E v \in Vals :
                 /\ DoEval(dom[Mid + 1], Hmax, v)
                 /\ calc' = Put(calc, Mid, v)
                 /\ IF v = 0
                    THEN Throw("ZeroDivisionError", "float division by zero") /\ UNCHANGED <<xl, xr, it>>
                    ELSE /\ IF Sign(v) = lsign THEN xl' = Mid /\ xr' = xr ELSE xr' = Mid /\ xl' = xl
                         /\ it' = it + 1 /\ pc' = "S_loop" /\ UNCHANGED outcome
     ELSE /\ pc' = "S_extra" /\ UNCHANGED <<xl, xr, it, calc, memo, log, live, lastSim, gfam, outcome>>
  /\ UNCHANGED <<cfg, ret, dom, dlen, lsign, t0l, t0u, tm1, branch, escape, selKey>>
  /\ UNCHANGED nestVars /\ UNCHANGED rwVars

S_extra ==   \* unrepaired: coordinates = self.coordinates_domain[i], indexed by the ITERATION COUNT, result dropped;
             \* repaired (F13): the end of the bracket, x_r_idx, is evaluated again and (re)stored
  /\ pc = "S_extra"
  /\ LET ix == IF "F13" \in Fixed THEN xr ELSE it IN
     IF ix + 1 > Len(dom) \/ ix + 1 > dlen
     THEN Throw("IndexError", "list index out of range") /\ UNCHANGED <<memo, log, live, lastSim, gfam, calc>>
     ELSE \E v \in Vals : /\ DoEval(dom[ix + 1], Hmax, v) /\ pc' = "S_pick" /\ UNCHANGED outcome
                          /\ calc' = IF "F13" \in Fixed THEN Put(calc, ix, v) ELSE calc
  /\ UNCHANGED <<cfg, ret, dom, dlen, xl, xr, it, lsign, t0l, t0u, tm1, branch, escape, selKey>>
  /\ UNCHANGED nestVars /\ UNCHANGED rwVars

\* the tail of Bisection1D.search: max of the non-positive values, then "smallest field with negative excess"
PickValue(c) ==
  LET vals == {c[i][2] : i \in 1..Len(c)}
      neg  == {v \in vals : v <= 0}
      negs == {i \in 1..Len(c) : c[i][2] < 0}
      key(i) == <<Cnt(dom[c[i][1] + 1]), c[i][2]>>
      less(i, j) == key(i)[1] < key(j)[1] \/ (key(i)[1] = key(j)[1] /\ key(i)[2] <= key(j)[2])
      first == CHOOSE i \in negs : \A j \in negs : less(i, j)
  IN IF negs # {} THEN c[first][2] ELSE SetMax(neg)

S_pick ==
  /\ pc = "S_pick"
  /\ LET vals == {calc[i][2] : i \in 1..Len(calc)} IN
     IF {v \in vals : v <= 0} = {}
     THEN /\ Throw("ValueError", "max()")
          /\ UNCHANGED <<selKey, log, live, lastSim, gfam>>
     ELSE LET k == calc[FirstIdxWithValue(calc, PickValue(calc))][1] IN
          /\ selKey' = k /\ DoInit(dom[k + 1], Hmax) /\ pc' = "S_ret" /\ UNCHANGED outcome
  /\ UNCHANGED <<cfg, ret, dom, dlen, xl, xr, it, lsign, t0l, t0u, tm1, calc, memo, branch, escape>>
  /\ UNCHANGED nestVars /\ UNCHANGED rwVars

S_ret ==
  /\ pc = "S_ret" /\ pc' = ret
  /\ UNCHANGED <<cfg, ret, dom, dlen, memo, log, live, lastSim, gfam, escape, outcome>>
  /\ UNCHANGED searchVars /\ UNCHANGED nestVars /\ UNCHANGED rwVars

SearchStep == S_cap \/ S_e1 \/ S_e2 \/ S_e3 \/ S_branch \/ S_loop \/ S_extra \/ S_pick \/ S_ret

-----------------------------------------------------------------------------
(* compute_g_functions ; GHE.size with solve_root                           *)
(* One action: the oracle answers at Hmin and Hmax, then the four outcomes. *)

SizeOutcome(lo, hi) == IF lo = 0 \/ hi = 0 THEN "ZeroDiv"
                       ELSE IF Sign(lo) # Sign(hi) THEN "Bracketed"
                       ELSE IF lo < 0 THEN "ClampLow" ELSE "ClampHigh"

\* DoSize(next) : on the live field
DoSize(next) ==
  LET f == live[1] IN
  \E lo \in MinVals, hi \in Vals, r \in RootLevels :
    /\ lo \in MinVals /\ hi \in Vals
    /\ LET kmin == <<PhysKey(f), "min">>  kmax == <<PhysKey(f), "max">>  kr == <<PhysKey(f), "root">>
           oc == SizeOutcome(lo, hi)
           needR == oc = "Bracketed"
       IN
       /\ (kmin \in DOMAIN memo => lo = memo[kmin])
       /\ (kmax \in DOMAIN memo => hi = memo[kmax])
       /\ IF needR THEN (kr \in DOMAIN memo => r = memo[kr]) ELSE r = SetMin(RootLevels)
       /\ memo' = (IF needR THEN (kr :> r) ELSE <<>>) @@ (kmin :> lo) @@ (kmax :> hi) @@ memo
       /\ LET h == CASE oc = "Bracketed" -> r + Code(f) [] oc = "ClampLow" -> Hmin [] oc = "ClampHigh" -> Hmax [] OTHER -> Hmid IN
          /\ log' = log \o << [e |-> "cg", f |-> f], [e |-> "size", f |-> f, oc |-> oc, h |-> h, lo |-> lo, hi |-> hi] >>
          /\ gfam' = "triple"
          /\ IF oc = "ZeroDiv"
             THEN /\ live' = <<f, Hmid>> /\ lastSim' = <<f, Hmax>>
                  /\ pc' = "Done" /\ outcome' = Raise("ZeroDivisionError", "float division by zero")
             ELSE /\ live' = <<f, h>>
                  /\ lastSim' = IF "F3" \in Fixed \/ oc # "ClampLow" THEN <<f, h>> ELSE <<f, Hmax>>
                  /\ pc' = next /\ UNCHANGED outcome

-----------------------------------------------------------------------------
(* Drivers                                                                  *)

\* a spacing window that admits no whole number of rows gives an empty candidate domain (rectangular, bi_rectangle_nested,
\* bi_rectangle_zoned_nested): the search constructor raises. Unrepaired (F23): IndexError from coordinates_domain[0].
EmptyDomain == Mode # "RW" /\ (IF Len(cfg.lists) = 0 THEN TRUE ELSE Len(cfg.lists[1]) = 0)

M_empty ==
  /\ pc = "Start" /\ EmptyDomain
  /\ pc' = "Done"
  /\ outcome' = IF "F23" \in Fixed THEN Raise("ValueError", "The geometric constraints admit no borehole field")
                                  ELSE Raise("IndexError", "list index out of range")
  /\ UNCHANGED <<cfg, ret, dom, dlen, memo, log, live, lastSim, gfam, escape, selOuter, li, oldH, heights, calcNested, selKeys, phase>>
  /\ UNCHANGED searchVars /\ UNCHANGED rwVars

M_start ==
  /\ pc = "Start" /\ ~EmptyDomain
  /\ CASE Mode = "1D" ->
            /\ dom' = [i \in 1..Len(cfg.lists[1]) |-> <<1, i>>] /\ dlen' = Len(cfg.lists[1])
            /\ ret' = "M_size" /\ pc' = "S_cap" /\ phase' = "only"
       [] Mode = "2D" ->
            \* outer_domain = [nested[0][0]] + [cdn[-1] for cdn in nested]; descriptors stay list 0's
            /\ dom' = <<<<1, 1>>>> \o [j \in 1..Len(cfg.lists) |-> <<j, Len(cfg.lists[j])>>]
            /\ dlen' = Len(cfg.lists[1])
            /\ ret' = "B_inner" /\ pc' = "S_cap" /\ phase' = "outer"
       [] Mode = "ZD" ->
            /\ dom' = <<<<1, 1>>>> \o [j \in 1..Len(cfg.lists) |-> <<j, Len(cfg.lists[j])>>]
            /\ dlen' = Len(cfg.lists) + 1
            /\ ret' = "Z_outerdone" /\ pc' = "S_cap" /\ phase' = "outer"
       [] Mode = "RW" ->
            /\ dom' = <<>> /\ dlen' = 0 /\ ret' = "M_size" /\ pc' = "R_gen" /\ phase' = "only"
  /\ UNCHANGED <<cfg, memo, log, live, lastSim, gfam, escape, outcome, selOuter, li, oldH, heights, calcNested, selKeys>>
  /\ UNCHANGED searchVars /\ UNCHANGED rwVars

\* Bisection2D: inner_domain = nested[selection_key - 1]   (selection_key 0 wraps to the LAST list)
B_inner ==
  /\ pc = "B_inner"
  /\ LET j == IF selKey = 0 THEN Len(cfg.lists) ELSE selKey IN
     /\ selOuter' = j
     /\ dom' = [i \in 1..Len(cfg.lists[j]) |-> <<j, i>>] /\ dlen' = Len(cfg.lists[j])
  /\ calc' = <<>> /\ phase' = "inner" /\ ret' = "M_size" /\ pc' = "S_cap"
  /\ UNCHANGED <<cfg, xl, xr, it, lsign, t0l, t0u, tm1, memo, log, live, lastSim, gfam, branch, escape, selKey, outcome,
                 li, oldH, heights, calcNested, selKeys>>
  /\ UNCHANGED rwVars

\* GHEManager.find_design tail: compute_g_functions ; size(HYBRID)
M_size ==
  /\ pc = "M_size"
  /\ DoSize("Report")
  /\ UNCHANGED <<cfg, ret, dom, dlen, escape>>
  /\ UNCHANGED searchVars /\ UNCHANGED nestVars /\ UNCHANGED rwVars

M_report ==
  /\ pc = "Report"
  /\ outcome' = Selected(selKey, live[1]) /\ pc' = "Done"
  /\ UNCHANGED <<cfg, ret, dom, dlen, memo, log, live, lastSim, gfam, escape>>
  /\ UNCHANGED searchVars /\ UNCHANGED nestVars /\ UNCHANGED rwVars

\* ---- BisectionZD ---------------------------------------------------------------------------
Z_outerdone ==
  /\ pc = "Z_outerdone"
  /\ selOuter' = IF selKey > 0 THEN selKey - 1 ELSE selKey
  /\ li' = IF selKey > 0 THEN selKey - 1 ELSE selKey
  /\ oldH' = 99999 * 1000 /\ heights' = <<>> /\ calcNested' = <<>> /\ selKeys' = <<>> /\ phase' = "succ"
  /\ pc' = "Z_loop"
  /\ UNCHANGED <<cfg, ret, dom, dlen, memo, log, live, lastSim, gfam, escape, outcome>>
  /\ UNCHANGED searchVars /\ UNCHANGED rwVars

Z_loop ==
  /\ pc = "Z_loop"
  /\ IF li < Len(cfg.lists) /\ li < selOuter + 7
     THEN /\ dom' = [i \in 1..Len(cfg.lists[li + 1]) |-> <<li + 1, i>>] /\ dlen' = Len(cfg.lists[li + 1])
          /\ calc' = <<>> /\ ret' = "Z_after" /\ pc' = "S_cap"
     ELSE /\ pc' = "Z_pick" /\ UNCHANGED <<dom, dlen, calc, ret>>
  /\ UNCHANGED <<cfg, xl, xr, it, lsign, t0l, t0u, tm1, memo, log, live, lastSim, gfam, branch, escape, selKey, outcome>>
  /\ UNCHANGED nestVars /\ UNCHANGED rwVars

Z_after ==   \* search returned: remember its dict, size the live field, record the drilling
  /\ pc = "Z_after"
  /\ calcNested' = Put(calcNested, li, calc) /\ selKeys' = Put(selKeys, li, selKey)
  /\ DoSize("Z_rec")
  /\ UNCHANGED <<cfg, ret, dom, dlen, escape, phase, selOuter, li, oldH, heights>>
  /\ UNCHANGED searchVars /\ UNCHANGED rwVars

Z_rec ==
  /\ pc = "Z_rec"
  /\ LET drill == Cnt(dom[selKey + 1]) * live[2] IN
     /\ heights' = Put(heights, li, drill)
     /\ IF oldH < drill THEN pc' = "Z_pick" /\ UNCHANGED <<oldH, li>>
                        ELSE oldH' = drill /\ li' = li + 1 /\ pc' = "Z_loop"
  /\ UNCHANGED <<cfg, ret, dom, dlen, memo, log, live, lastSim, gfam, escape, outcome, phase, selOuter, calcNested, selKeys>>
  /\ UNCHANGED searchVars /\ UNCHANGED rwVars

Z_pick ==
  /\ pc = "Z_pick"
  /\ phase' = "final"
  /\ IF Len(heights) = 0
     THEN /\ pc' = "Done" /\ outcome' = Raise("ValueError", "min()")
          /\ UNCHANGED <<dom, dlen, calc, selKey, selOuter, log, live, lastSim, gfam>>
     ELSE LET m  == SetMin({heights[i][2] : i \in 1..Len(heights)})
              ko == heights[FirstIdxWithValue(heights, m)][1]
              c  == Get(calcNested, ko)
              neg == {v \in {c[i][2] : i \in 1..Len(c)} : v <= 0}
              go(k) == /\ selOuter' = ko /\ selKey' = k /\ calc' = c
                       /\ dom' = [i \in 1..Len(cfg.lists[ko + 1]) |-> <<ko + 1, i>>] /\ dlen' = Len(cfg.lists[ko + 1])
                       /\ DoInit(<<ko + 1, k + 1>>, Hmax) /\ pc' = "Z_final" /\ UNCHANGED outcome
          IN
          IF "F10" \in Fixed
          THEN go(Get(selKeys, ko))      \* repaired: keep the field that list's own search selected
          ELSE IF neg = {}
          THEN /\ pc' = "Done" /\ outcome' = Raise("ValueError", "max()")
               /\ UNCHANGED <<dom, dlen, calc, selKey, selOuter, log, live, lastSim, gfam>>
          ELSE go(c[FirstIdxWithValue(c, SetMax(neg))][1])
  /\ UNCHANGED <<cfg, ret, xl, xr, it, lsign, t0l, t0u, tm1, memo, branch, escape, li, oldH, heights, calcNested, selKeys>>
  /\ UNCHANGED rwVars

Z_final ==   \* search_successive's own compute_g/size, then the manager's (second) compute_g/size
  /\ pc = "Z_final"
  /\ DoSize("M_size")
  /\ UNCHANGED <<cfg, ret, dom, dlen, escape>>
  /\ UNCHANGED searchVars /\ UNCHANGED nestVars /\ UNCHANGED rwVars

-----------------------------------------------------------------------------
(* RowWiseModifiedBisectionSearch.search                                    *)
(* spacing cells: 0 = min_spacing (largest field, "upper"), RWGrid = max_spacing ("lower") *)

Fs(a, k) == <<"s", a, k>>

\* generating a field fixes its borehole count (lazily, memoised)
Gen(f, n) == Ask(<<f, "cnt">>, n, RWCounts)

R_gen ==   \* upper and lower fields and their excess at maximum height
  /\ pc = "R_gen"
  /\ \E nu \in RWCounts, nl \in RWCounts, vu \in Vals, vl \in Vals :
       /\ (RWMonotone => nl <= nu)
       /\ memo' = (<<Fs(0, 0), "cnt">> :> nu) @@ (<<Fs(RWGrid, 0), "cnt">> :> nl)
                  @@ (<<Fs(0, 0), "max">> :> vu) @@ (<<Fs(RWGrid, 0), "max">> :> vl)
       /\ log' = log \o << [e |-> "eval", f |-> Fs(0, 0), h |-> Hmax, v |-> vu, n |-> nu,
                             flow |-> IF cfg.flow = "BOREHOLE" THEN [vsysMul |-> nu, mDiv |-> 1] ELSE [vsysMul |-> 1, mDiv |-> nu]],
                            [e |-> "eval", f |-> Fs(RWGrid, 0), h |-> Hmax, v |-> vl, n |-> nl,
                             flow |-> IF cfg.flow = "BOREHOLE" THEN [vsysMul |-> nl, mDiv |-> 1] ELSE [vsysMul |-> 1, mDiv |-> nl]] >>
       /\ live' = <<Fs(RWGrid, 0), Hmax>> /\ lastSim' = <<Fs(RWGrid, 0), Hmax>> /\ gfam' = "single"
       /\ eLow' = vu /\ eHigh' = vl      \* low_e = t_upper, high_e = t_lower (the code's naming)
       /\ IF vu > 0 /\ vl > 0
          THEN /\ branch' = "TooBig"
               /\ IF cfg.cont THEN rwSel' = Fs(0, 0) /\ escape' = TRUE /\ pc' = "R_done" /\ UNCHANGED outcome
                              ELSE pc' = "Done" /\ outcome' = Raise("ValueError", "Search failed.") /\ UNCHANGED <<rwSel, escape>>
          ELSE IF vu < 0 /\ 0 < vl
          THEN /\ branch' = "Bisect" /\ pc' = "R_bis" /\ UNCHANGED <<rwSel, escape, outcome>>
          ELSE IF vl < 0 /\ vu < 0
          THEN /\ branch' = "Removal" /\ pc' = "R_one" /\ UNCHANGED <<rwSel, escape, outcome>>
          ELSE /\ branch' = "Inconsistent" /\ pc' = "Done"
               /\ outcome' = Raise("ValueError", "There seems to be an issue calculating excess temperatures")
               /\ UNCHANGED <<rwSel, escape>>
  /\ sHigh' = 0 /\ sLow' = RWGrid /\ sMid' = RWGrid \div 2 /\ it' = 0
  /\ UNCHANGED <<cfg, ret, dom, dlen, xl, xr, lsign, t0l, t0u, tm1, calc, selKey,
                 rwBest, rwBestDrill, tk, nMax, nMin, nStart, devs>>
  /\ UNCHANGED nestVars

R_bis ==   \* spacing bisection; the field count is non-increasing in the spacing
  /\ pc = "R_bis"
  /\ IF it < MaxIter
     THEN \E n \in RWCounts, v \in Vals :
            /\ (RWMonotone => (memo[<<Fs(sLow, 0), "cnt">>] <= n /\ n <= memo[<<Fs(sHigh, 0), "cnt">>]))
            /\ LET f == Fs(sMid, 0) IN
               /\ (<<f, "cnt">> \in DOMAIN memo => n = memo[<<f, "cnt">>])
               /\ (<<f, "max">> \in DOMAIN memo => v = memo[<<f, "max">>])
               /\ memo' = (<<f, "cnt">> :> n) @@ (<<f, "max">> :> v) @@ memo
               /\ log' = Append(log, [e |-> "eval", f |-> f, h |-> Hmax, v |-> v, n |-> n,
                            flow |-> IF cfg.flow = "BOREHOLE" THEN [vsysMul |-> n, mDiv |-> 1] ELSE [vsysMul |-> 1, mDiv |-> n]])
               /\ live' = <<f, Hmax>> /\ lastSim' = <<f, Hmax>> /\ gfam' = "single"
               /\ LET nh == IF v <= 0 THEN sMid ELSE sHigh
                      nl == IF v <= 0 THEN sLow ELSE sMid
                      neh == IF v <= 0 THEN v ELSE eHigh
                      nel == IF v <= 0 THEN eLow ELSE v
                  IN /\ sHigh' = nh /\ sLow' = nl /\ eHigh' = neh /\ eLow' = nel
                     /\ sMid' = (nl + nh) \div 2
                     /\ IF nel = neh THEN pc' = "R_tail" /\ it' = it ELSE it' = it + 1 /\ pc' = "R_bis"
     ELSE pc' = "R_tail" /\ UNCHANGED <<memo, log, live, lastSim, gfam, sHigh, sLow, sMid, eHigh, eLow, it>>
  /\ tk' = 0 /\ rwBest' = None /\ rwBestDrill' = 0 /\ devs' = 0
  /\ UNCHANGED <<cfg, ret, dom, dlen, xl, xr, lsign, t0l, t0u, tm1, calc, branch, escape, selKey, outcome,
                 rwSel, nMax, nMin, nStart>>
  /\ UNCHANGED nestVars

\* exhaustive tail: spacings sHigh + k * step/10, each evaluated AND sized
TailDefault(n, v, lo) == n = memo[<<Fs(sHigh, 0), "cnt">>] /\ v = 1 /\ lo = 1

R_tail ==
  /\ pc = "R_tail"
  /\ IF tk < RWTail
     THEN \E n \in RWCounts, v \in Vals, lo \in MinVals, r \in RootLevels :
            LET f == Fs(sHigh, tk)
                oc == SizeOutcome(lo, v)
                h == CASE oc = "Bracketed" -> r + Code(f) [] oc = "ClampLow" -> Hmin [] oc = "ClampHigh" -> Hmax [] OTHER -> Hmid
                dev == IF tk = 0 \/ TailDefault(n, v, lo) THEN 0 ELSE 1
            IN
            /\ (RWMonotone => n <= memo[<<Fs(sHigh, 0), "cnt">>])
            /\ ((RWMonotone /\ tk > 0) => n <= memo[<<Fs(sHigh, tk - 1), "cnt">>])
            /\ (<<f, "cnt">> \in DOMAIN memo => n = memo[<<f, "cnt">>])
            /\ (<<f, "max">> \in DOMAIN memo => v = memo[<<f, "max">>])
            /\ (oc = "Bracketed" \/ r = SetMin(RootLevels))
            /\ devs + dev <= RWDev
            /\ devs' = devs + dev
            /\ memo' = (IF oc = "Bracketed" THEN (<<f, "root">> :> r) ELSE <<>>)
                       @@ (<<f, "cnt">> :> n) @@ (<<f, "max">> :> v) @@ (<<f, "min">> :> lo) @@ memo
            /\ log' = log \o << [e |-> "eval", f |-> f, h |-> Hmax, v |-> v, n |-> n,
                                  flow |-> IF cfg.flow = "BOREHOLE" THEN [vsysMul |-> n, mDiv |-> 1] ELSE [vsysMul |-> 1, mDiv |-> n]],
                                 [e |-> "init", f |-> f, h |-> Hmax, n |-> n,
                                  flow |-> IF cfg.flow = "BOREHOLE" THEN [vsysMul |-> n, mDiv |-> 1] ELSE [vsysMul |-> 1, mDiv |-> n]],
                                 [e |-> "cg", f |-> f],
                                 [e |-> "size", f |-> f, oc |-> oc, h |-> h, lo |-> lo, hi |-> v] >>
            /\ IF oc = "ZeroDiv"
               THEN /\ pc' = "Done" /\ outcome' = Raise("ZeroDivisionError", "float division by zero")
                    /\ live' = <<f, Hmid>> /\ lastSim' = <<f, Hmax>> /\ gfam' = "triple"
                    /\ UNCHANGED <<rwBest, rwBestDrill, tk>>
               ELSE /\ live' = <<f, h>> /\ gfam' = "triple"
                    /\ lastSim' = IF "F3" \in Fixed \/ oc # "ClampLow" THEN <<f, h>> ELSE <<f, Hmax>>
                    /\ IF rwBest = None \/ (v <= 0 /\ h * n < rwBestDrill)
                       THEN rwBest' = f /\ rwBestDrill' = h * n
                       ELSE UNCHANGED <<rwBest, rwBestDrill>>
                    /\ tk' = tk + 1 /\ pc' = "R_tail" /\ UNCHANGED outcome
            /\ UNCHANGED rwSel
     ELSE /\ rwSel' = rwBest /\ pc' = "R_done"
          /\ UNCHANGED <<memo, log, live, lastSim, gfam, rwBest, rwBestDrill, tk, devs, outcome>>
  /\ UNCHANGED <<cfg, ret, dom, dlen, xl, xr, it, lsign, t0l, t0u, tm1, calc, branch, escape, selKey,
                 sLow, sHigh, sMid, eLow, eHigh, nMax, nMin, nStart>>
  /\ UNCHANGED nestVars

\* removal branch: 1X1 probe, then bisection on the number of boreholes kept
FLow == Fs(RWGrid, 0)
Fr(n) == IF n = memo[<<FLow, "cnt">>] THEN FLow ELSE <<"r", n, 0>>

R_one ==
  /\ pc = "R_one"
  /\ \E v \in Vals :
       /\ DoEval(<<"one">>, Hmax, v)
       /\ IF v <= 0
          THEN /\ rwSel' = Fr(1) /\ pc' = "R_done" /\ UNCHANGED <<nMax, nMin, nStart, it>>
          ELSE /\ nMax' = memo[<<FLow, "cnt">>] /\ nMin' = 1 /\ nStart' = memo[<<FLow, "cnt">>]
               /\ it' = 0 /\ rwSel' = None /\ pc' = "R_rem"
  /\ UNCHANGED <<cfg, ret, dom, dlen, xl, xr, lsign, t0l, t0u, tm1, calc, branch, escape, selKey, outcome,
                 sLow, sHigh, sMid, eLow, eHigh, rwBest, rwBestDrill, tk, devs>>
  /\ UNCHANGED nestVars

R_rem ==
  /\ pc = "R_rem"
  /\ IF it < MaxIter
     THEN LET n == (nMax + nMin) \div 2 IN
          \E v \in Vals :
            /\ DoEval(Fr(n), Hmax, v)
            /\ IF v <= 0 THEN nMax' = n /\ rwSel' = Fr(n) /\ nMin' = nMin
                         ELSE nMin' = n /\ UNCHANGED <<nMax, rwSel>>
            /\ IF (IF v <= 0 THEN n ELSE nMax) - (IF v <= 0 THEN nMin ELSE n) <= 1
               THEN pc' = "R_done" /\ it' = it
               ELSE it' = it + 1 /\ pc' = "R_rem"
     ELSE pc' = "R_done" /\ UNCHANGED <<memo, log, live, lastSim, gfam, nMax, nMin, rwSel, it>>
  /\ UNCHANGED <<cfg, ret, dom, dlen, xl, xr, lsign, t0l, t0u, tm1, calc, branch, escape, selKey, outcome,
                 sLow, sHigh, sMid, eLow, eHigh, rwBest, rwBestDrill, tk, nStart, devs>>
  /\ UNCHANGED nestVars

R_done ==   \* advanced_tracking uses len(selected_coordinates); then __init__ initialises the selected field
  /\ pc = "R_done"
  /\ IF rwSel = None
     THEN IF "F8" \in Fixed
          THEN \* repaired: nothing smaller than the probed fields is feasible -> keep the smallest feasible one (nMax)
               /\ DoInit(Fr(nMax), Hmax) /\ rwSel' = Fr(nMax) /\ pc' = "M_size" /\ UNCHANGED outcome
          ELSE /\ pc' = "Done" /\ outcome' = Raise("TypeError", "object of type 'NoneType' has no len()")
               /\ UNCHANGED <<log, live, lastSim, gfam, rwSel>>
     ELSE /\ DoInit(rwSel, Hmax) /\ pc' = "M_size" /\ UNCHANGED <<outcome, rwSel>>
  /\ UNCHANGED <<cfg, ret, dom, dlen, memo, escape>>
  /\ UNCHANGED searchVars /\ UNCHANGED nestVars
  /\ UNCHANGED <<sLow, sHigh, sMid, eLow, eHigh, rwBest, rwBestDrill, tk, nMax, nMin, nStart, devs>>

-----------------------------------------------------------------------------
Init ==
  /\ cfg \in Configs
  /\ pc = "Start" /\ ret = "none" /\ dom = <<>> /\ dlen = 0
  /\ xl = 0 /\ xr = 0 /\ it = 0 /\ lsign = 0 /\ t0l = 0 /\ t0u = 0 /\ tm1 = 0
  /\ calc = <<>> /\ memo = <<>> /\ log = <<>> /\ live = None /\ lastSim = None /\ gfam = "single"
  /\ branch = "none" /\ escape = FALSE /\ selKey = 0 /\ outcome = [k |-> "none"]
  /\ phase = "none" /\ selOuter = 0 /\ li = 0 /\ oldH = 0 /\ heights = <<>> /\ calcNested = <<>> /\ selKeys = <<>>
  /\ sLow = 0 /\ sHigh = 0 /\ sMid = 0 /\ eLow = 0 /\ eHigh = 0 /\ rwSel = None /\ rwBest = None
  /\ rwBestDrill = 0 /\ tk = 0 /\ nMax = 0 /\ nMin = 0 /\ nStart = 0 /\ devs = 0

Next == M_start \/ M_empty \/ SearchStep \/ B_inner \/ M_size \/ M_report
        \/ Z_outerdone \/ Z_loop \/ Z_after \/ Z_rec \/ Z_pick \/ Z_final
        \/ R_gen \/ R_bis \/ R_tail \/ R_one \/ R_rem \/ R_done

Spec == Init /\ [][Next]_vars /\ WF_vars(Next)

-----------------------------------------------------------------------------
(* Properties                                                               *)

Done == pc = "Done"
IsSel == outcome.k = "sel"
SelF == outcome.f
FinalH == live[2]

EvalsAtMax == {log[i] : i \in {j \in 1..Len(log) : log[j].e = "eval" /\ log[j].h = Hmax}}

\* C01 : not via a continue branch => what was selected is feasible at the returned height
FinalExcessNonPositive ==
  (Done /\ IsSel /\ ~escape) => ExcessAt(SelF, FinalH) <= 0

\* C01 : the selection rule itself
SelFeasibleOrEscape ==
  (Done /\ IsSel /\ ~escape /\ Mode \in {"1D", "2D"}) =>
     \/ memo[<<PhysKey(SelF), "max">>] < 0
     \/ (branch = "BracketLower" /\ Bracket(Sign(memo[<<PhysKey(SelF), "min">>]), Sign(memo[<<PhysKey(SelF), "max">>])))

\* C02
HeightInBounds == (Done /\ IsSel) => (Hmin <= FinalH /\ FinalH <= Hmax)

CapRespected == (Done /\ IsSel /\ Mode # "RW" /\ cfg.cap # 0) => Cnt(SelF) < cfg.cap

AllowedIdx(j) == IF cfg.cap = 0 THEN 1..Len(cfg.lists[j]) ELSE {i \in 1..Len(cfg.lists[j]) : cfg.lists[j][i] < cfg.cap}

\* near-square / rectangle (1D): all three probes of one sign
NoZero == \A k \in DOMAIN memo : (k[2] \in {"max", "min"}) => memo[k] # 0

\* physical hypothesis on the oracle: more height never makes a feasible field infeasible
PhysicalInH == \A k \in DOMAIN memo :
                 (k[2] = "min" /\ <<k[1], "max">> \in DOMAIN memo) => ~(memo[k] < 0 /\ memo[<<k[1], "max">>] > 0)

UnmetPolicy1D ==
  (Done /\ Mode = "1D" /\ branch \in {"TooSmall", "TooBig"} /\ PhysicalInH /\ NoZero) =>
     IF cfg.cont
     THEN /\ IsSel
          /\ branch = "TooSmall" => (SelF = <<1, 1>> /\ FinalH = Hmin)
          /\ branch = "TooBig" => (SelF = <<1, SetMax(AllowedIdx(1))>> /\ FinalH = Hmax)
     ELSE outcome = Raise("ValueError", "Search failed.")

\* every mode: loads beyond every allowed candidate at maximum height (all evaluations positive)
AllPositive == \A k \in DOMAIN memo : (k[2] \in {"max", "min"}) => memo[k] > 0
AllNegative == \A k \in DOMAIN memo : (k[2] \in {"max", "min"}) => memo[k] < 0

UnmetPolicy ==
  (Done /\ Mode # "RW" /\ (AllPositive \/ AllNegative) /\ memo # <<>> /\ NoZero) =>
     IF cfg.cont
     THEN /\ IsSel
          /\ AllPositive => FinalH = Hmax
          /\ AllNegative => FinalH = Hmin
     ELSE outcome.k = "raise" /\ outcome.type = "ValueError"

UnmetPolicyRW ==
  (Done /\ Mode = "RW" /\ branch = "TooBig" /\ NoZero) =>
     IF cfg.cont THEN IsSel /\ SelF = Fs(0, 0) /\ (PhysicalInH => FinalH = Hmax)
                 ELSE outcome = Raise("ValueError", "Search failed.")

NonDegenerate ==
  /\ \A k \in DOMAIN memo : (k[2] \in {"max", "min"}) => memo[k] # 0
  /\ Mode # "RW" => (cfg.cap = 0 \/ cfg.cap >= 2) /\ (EmptyDomain \/ cfg.lists[1][1] = 1)

OnlyValueError ==
  (Done /\ NonDegenerate /\ outcome.k = "raise") => outcome.type = "ValueError"

\* Real physics never returns bit-identical excess for two different fields; with ties the dict-order dependent
\* values.index() pick differs from the documented rule.  Tie oracles are replayed for conformance, not judged.
\* (only non-positive values take part in the selection, so only their ties matter)
NoTies == \A k1, k2 \in DOMAIN memo : (k1 # k2 /\ k1[2] = "max" /\ k2[2] = "max" /\ memo[k1] <= 0) => memo[k1] # memo[k2]

\* C05 (1D, rectangle, bi-rectangle inner): bisect branch => predecessor evaluated infeasible, selection feasible
PredecessorFails ==
  (Done /\ IsSel /\ Mode \in {"1D", "2D"} /\ branch = "Bisect" /\ phase \in {"only", "inner"} /\ NoTies) =>
     /\ memo[<<PhysKey(SelF), "max">>] < 0
     /\ SelF[2] > 1 => LET p == PhysKey(<<SelF[1], SelF[2] - 1>>) IN <<p, "max">> \in DOMAIN memo /\ memo[<<p, "max">>] > 0

Antitone(j) == \A a, b \in 1..Len(cfg.lists[j]) :
                  (a < b /\ <<PhysKey(<<j, a>>), "max">> \in DOMAIN memo /\ <<PhysKey(<<j, b>>), "max">> \in DOMAIN memo)
                     => (memo[<<PhysKey(<<j, a>>), "max">>] > 0 \/ memo[<<PhysKey(<<j, b>>), "max">>] < 0)
                        \* a feasible (negative) smaller field implies every larger evaluated field is feasible

FirstFeasibleIfMonotone ==
  (Done /\ IsSel /\ Mode = "1D" /\ branch = "Bisect" /\ Antitone(1) /\ NoTies) =>
     \A i \in AllowedIdx(1) : (<<PhysKey(<<1, i>>), "max">> \in DOMAIN memo /\ memo[<<PhysKey(<<1, i>>), "max">>] < 0) => SelF[2] <= i

\* C05 : never more drilling than an evaluated feasible candidate at maximum height
\* (also when the design came from a continue branch: "largest field at maximum height" is only reached when every evaluated
\*  field failed, "smallest field at minimum height" has the least drilling of all)
NoLessDrillingEvaluated ==
  (Done /\ IsSel /\ Mode # "RW" /\ NoTies) =>
     \A ev \in EvalsAtMax : ev.v < 0 => Cnt(SelF) * FinalH <= ev.n * Hmax

\* the same restricted to the list the selection came from (what a per-list bisection can promise)
NoLessDrillingSameList ==
  (Done /\ IsSel /\ ~escape /\ Mode # "RW" /\ NoTies) =>
     \A ev \in EvalsAtMax : (ev.v < 0 /\ ev.f[1] = SelF[1]) => Cnt(SelF) * FinalH <= ev.n * Hmax

RootUnlessClamped ==
  (Done /\ IsSel) => (FinalH \notin {Hmin, Hmax} => ExcessAt(SelF, FinalH) = 0)

\* C12
ReportedIsLastSim == (Done /\ IsSel) => lastSim = <<SelF, FinalH>>
LiveIsSelected    == (Done /\ IsSel) => live[1] = SelF

\* C13 in the small: the oracle is a function
SameFieldSameAnswer == [][\A k \in DOMAIN memo : k \in DOMAIN memo' /\ memo'[k] = memo[k]]_memo

\* C02 : the 'else: pass' of Bisection1D.search is dead
NeverUnreachable == branch # "Unreachable"

Terminates == <>(pc = "Done")

\* ---- known-finding predicates ------------------------------------------------------------
Known_F3 == Done /\ IsSel /\ FinalH = Hmin /\ lastSim = <<SelF, Hmax>>
Known_F8 == Done /\ Mode = "RW" /\ branch = "Removal" /\ outcome = Raise("TypeError", "object of type 'NoneType' has no len()")
Known_F10 == Done /\ Mode = "ZD"
\* F16: the cap is applied as "last index whose count is below max_boreholes"; in a list whose counts are not
\* monotone (bi-zoned saw-tooth) earlier indices can exceed the cap and be selected
LastAllowedIdx(j) == SetMax(AllowedIdx(j))
Known_F16 == /\ Done /\ IsSel /\ Mode = "ZD" /\ cfg.cap # 0 /\ Cnt(SelF) >= cfg.cap
             /\ SelF[2] < LastAllowedIdx(SelF[1])
CapRespectedK == CapRespected \/ Known_F16
F16Present == ~(Known_F16 /\ ~CapRespected)
Known_F12 == Done /\ Mode = "ZD" /\ cfg.cont /\ outcome = Raise("ValueError", "max()")

Alias == [pc |-> pc, cfg |-> cfg, log |-> log, outcome |-> outcome, branch |-> branch, escape |-> escape,
          live |-> live, lastSim |-> lastSim, memo |-> memo, calc |-> calc, heights |-> heights,
          xl |-> xl, xr |-> xr, it |-> it, phase |-> phase, selKey |-> selKey, selOuter |-> selOuter, li |-> li]

\* ---- behaviour generator (B1) -------------------------------------------------------------
MemoAsSeq == LET ks == DOMAIN memo IN {<<k, memo[k]>> : k \in ks}

Emit == Done => PrintT(ToJson([cfg |-> cfg, mode |-> Mode, log |-> log, outcome |-> outcome,
                                 branch |-> branch, escape |-> escape, live |-> live, lastSim |-> lastSim,
                                 calc |-> calc, heights |-> heights, selOuter |-> selOuter, phase |-> phase,
                                 memo |-> MemoAsSeq,
                                 inv |-> [FinalExcessNonPositive |-> FinalExcessNonPositive, HeightInBounds |-> HeightInBounds,
                                          CapRespected |-> CapRespected, Known_F16 |-> Known_F16, OnlyValueError |-> OnlyValueError,
                                          UnmetPolicy |-> UnmetPolicy, UnmetPolicy1D |-> UnmetPolicy1D, UnmetPolicyRW |-> UnmetPolicyRW,
                                          NoLessDrillingEvaluated |-> NoLessDrillingEvaluated, PredecessorFails |-> PredecessorFails,
                                          FirstFeasibleIfMonotone |-> FirstFeasibleIfMonotone,
                                          RootUnlessClamped |-> RootUnlessClamped, ReportedIsLastSim |-> ReportedIsLastSim]]))
=============================================================================
