------------------------------- MODULE PeakScale -------------------------------
(* HybridLoad.find_peak_durations: which load the two-day profile of a month is scaled by.                         *)
(*                                                                                                                  *)
(* For every month the code looks at the rejection window and then at the extraction window (48 hourly loads ending *)
(* with the peak day, possibly reaching into the previous month). The scale of a direction is that direction's      *)
(* monthly peak unless the window holds a load that exceeds it by the tolerance (0.1 kW), in which case it is the   *)
(* maximum of the window. A month without load in a direction is not simulated (duration 1e-6 h, fix F9).           *)
(* The duration stays within 48 h only if the scale covers the window: the peak-scaled profile (w - avg) w / scale  *)
(* is then nowhere above the constant (scale - avg).                                                                 *)
(*                                                                                                                  *)
(* Loads are integers in units of 0.01 kW; Tol = 10. One behaviour = one month: Start -> Rej -> Ext -> Done.        *)
EXTENDS Integers, Sequences, TLC, Json

CONSTANTS Peaks,      \* monthly peaks tried (0 = no load in that direction)
          Excess,     \* how far the window maximum lies above the monthly peak (0 = the peak is the window maximum)
          Tol

VARIABLES pc, pk, mx, scale, order

vars == <<pc, pk, mx, scale, order>>
Dir == {"rej", "ext"}
Abs(x) == IF x < 0 THEN -x ELSE x

Init == /\ pc = "Rej"
        /\ pk \in [Dir -> Peaks]
        /\ \E ex \in [Dir -> Excess] : mx = [d \in Dir |-> pk[d] + ex[d]]
        /\ scale = [d \in Dir |-> -1]
        /\ order = <<>>

ScaleOf(d) == IF pk[d] = 0 THEN 0                         \* not simulated
              ELSE IF Abs(pk[d] - mx[d]) < Tol THEN pk[d] ELSE mx[d]

DoRej == /\ pc = "Rej"
         /\ scale' = [scale EXCEPT !["rej"] = ScaleOf("rej")]
         /\ order' = IF pk["rej"] # 0 THEN order \o <<"rej">> ELSE order
         /\ pc' = "Ext"
         /\ UNCHANGED <<pk, mx>>

DoExt == /\ pc = "Ext"
         /\ scale' = [scale EXCEPT !["ext"] = ScaleOf("ext")]
         /\ order' = IF pk["ext"] # 0 THEN order \o <<"ext">> ELSE order
         /\ pc' = "Done"
         /\ UNCHANGED <<pk, mx>>

Next == DoRej \/ DoExt \/ (pc = "Done" /\ UNCHANGED vars)
Spec == Init /\ [][Next]_vars /\ WF_vars(Next)

TypeOK == pc \in {"Rej", "Ext", "Done"}

\* C07: the scale of a simulated direction covers its window up to the tolerance (=> duration <= 48 h) ...
ScaleCoversWindow == pc = "Done" => \A d \in Dir : pk[d] # 0 => scale[d] > mx[d] - Tol
\* ... is one of that direction's own two candidates and never below the monthly peak ...
ScaleOwnDirection == pc = "Done" => \A d \in Dir : pk[d] # 0 => scale[d] \in {pk[d], mx[d]} /\ scale[d] >= pk[d]
\* ... and a direction without load is not simulated.
NoSimWithoutLoad == pc = "Done" => \A d \in Dir : pk[d] = 0 => scale[d] = 0
Terminates == <>(pc = "Done")

Emit == pc = "Done" => PrintT(ToJson([t |-> "scale", pkc |-> pk["rej"], mxc |-> mx["rej"], pkh |-> pk["ext"], mxh |-> mx["ext"],
                                      sc |-> scale["rej"], sh |-> scale["ext"], order |-> order]))
================================================================================
