"""C13: Manager.tla / GheObject.tla generate API histories; every history is executed on the real classes and the results are
compared bit-for-bit inside each class the model says must agree."""
from __future__ import annotations

import contextlib
import hashlib
import io
import json
import math
import os
import random
import struct
import warnings

from .core import Check, MachineryError, import_repo, parallel_map, require_tlc_ok, run_tlc, tier
from .tla import tla

FIXED_OBJ = set(filter(None, os.environ.get("VERIF_FIXED_OBJ", "F6").split(",")))

SLOTS = ["fluid", "grout", "soil", "pipe", "bore", "sim", "loads", "geom"]


def profile(amp):
    return [amp * (math.sin(2 * math.pi * h / 8760) + 0.25 * math.sin(2 * math.pi * (h % 24) / 24) + 0.2) for h in range(8760)]


# two physical variants per varied slot
def apply_set(m, slot, v, nominal=None, method="NEARSQUARE"):
    if slot == "fluid":
        m.set_fluid()
    elif slot == "grout":
        m.set_grout(conductivity=1.0, rho_cp=3901000.0)
    elif slot == "soil":
        m.set_soil(conductivity=2.0 if v == 1 else 2.6, rho_cp=2343493.0, undisturbed_temp=18.3)
    elif slot == "pipe":
        m.set_single_u_tube_pipe(inner_diameter=0.03404, outer_diameter=0.04216, shank_spacing=0.01856, roughness=1e-6, conductivity=0.4, rho_cp=1542000.0)
    elif slot == "bore":
        m.set_borehole(height={1: 100.0, 2: 83.0}[nominal], buried_depth=2.0 if v == 1 else 3.0, diameter=0.14)
    elif slot == "sim":
        # variant 2: a borehole cap (with the continue flag, so that a capped run still returns a design). Calling the setter again with
        # variant 1 must leave nothing of the cap behind.
        if v == 2:
            m.set_simulation_parameters(num_months=12, max_eft=35, min_eft=5, max_height=135, min_height=60, max_boreholes=2, continue_if_design_unmet=True)
        else:
            m.set_simulation_parameters(num_months=12, max_eft=35, min_eft=5, max_height=135, min_height=60)
    elif slot == "loads":
        m.set_ground_loads_from_hourly_list(profile(3500.0 if v == 1 else 5200.0))
    elif slot == "geom":
        if method == "NEARSQUARE":
            m.set_geometry_constraints_near_square(b=5.0, length=20.0)
        elif method == "RECTANGLE":
            m.set_geometry_constraints_rectangle(length=20.0, width=15.0, b_min=3.0, b_max=7.0)
        elif method == "BIRECTANGLE":
            m.set_geometry_constraints_bi_rectangle(length=20.0, width=15.0, b_min=3.0, b_max_x=7.0, b_max_y=7.0)
        else:
            m.set_geometry_constraints_bi_zoned_rectangle(length=20.0, width=15.0, b_min=3.0, b_max_x=7.0, b_max_y=7.0)


def fhash(vals):
    h = hashlib.sha256()
    for v in vals:
        h.update(struct.pack("<d", float(v)))
    return h.hexdigest()[:20]


def result_of(m):
    g = m._search.ghe
    coords = [c for xy in g.gFunction.bore_locations for c in xy]
    return {"n": len(g.gFunction.bore_locations), "coords": fhash(coords), "H": float(g.bhe.b.H).hex(), "max": float(max(g.hp_eft)).hex(),
            "min": float(min(g.hp_eft)).hex(), "hp": fhash(g.hp_eft)}


def _exec_manager_history(item):
    import_repo()
    from ghedesigner.manager import GHEManager  # noqa: PLC0415

    method = item["method"]
    results = []
    m = GHEManager()
    buf = io.StringIO()
    with warnings.catch_warnings(), contextlib.redirect_stdout(buf), contextlib.redirect_stderr(buf):
        warnings.simplefilter("ignore")
        try:
            if item.get("preset"):
                for s_ in SLOTS:
                    apply_set(m, s_, 1, nominal=1, method=method)
            for call in item["hist"]:
                op = call[0]
                if op == "set":
                    if call[1] == "bore":
                        apply_set(m, "bore", call[2], nominal=call[3], method=method)
                    else:
                        apply_set(m, call[1], call[2], method=method)
                elif op == "set_design":
                    m.set_design(flow_rate=0.3, flow_type_str="borehole")
                elif op == "find":
                    m.find_design()
                    results.append(result_of(m))
                elif op == "rebuild":
                    m = GHEManager()
                elif op == "other_run":
                    o = GHEManager()
                    for s in SLOTS:
                        apply_set(o, s, 2 if s in ("soil", "loads") else 1, nominal=2, method="RECTANGLE" if method != "RECTANGLE" else "NEARSQUARE")
                    o.set_design(flow_rate=0.2, flow_type_str="system")
                    o.find_design()
        except Exception as ex:  # noqa: BLE001
            return {"error": f"{type(ex).__name__}: {ex}", "results": results}
    return {"results": results}


def snap_key(snap):
    return tuple(sorted(snap.items()))


def manager_histories(chk: Check, t: str):
    """Exhaustive for a reduced alphabet + TLC simulation for the full alphabet."""
    out = []
    mod = f"""---- MODULE MC_Manager ----
EXTENDS Manager
c_Slots == {tla(set(SLOTS))}
c_Vary == {tla({"soil", "loads", "bore"})}
====
"""
    consts = "CONSTANTS\n Slots <- c_Slots\n Vary <- c_Vary\n MaxCalls = 20\n MaxFinds = 2\n"
    n = 3000 if t == "quick" else 40000
    cfg = "INIT Init\nNEXT Next\nCHECK_DEADLOCK FALSE\n" + consts + "INVARIANT ResultDependsOnPhysOnly\nINVARIANT Emit\n"
    res = run_tlc("MC_Manager", cfg, extra_modules={"MC_Manager.tla": mod}, workers=1, simulate=f"num={n}", depth=20, timeout=1200)
    if res.violated or res.error:
        raise MachineryError(f"Manager simulate: {res.violated} {res.error}")
    chk.add_tlc(res)
    chk.checker_cmds.append(res.cmd)
    out = res.prints
    return out


def manager_exhaustive(chk: Check, t: str):
    """EVERY continuation of at most 4 (thorough: 5) calls after a straight-line configuration, alphabet: soil / bore (two physical variants,
    two nominal heights) and every other setter, set_design, find_design, rebuilt manager, unrelated run."""
    mod = f"""---- MODULE MC_Manager ----
EXTENDS Manager
c_Slots == {tla(set(SLOTS))}
c_Vary == {tla({"soil", "bore", "sim"})}
====
"""
    # quick: every continuation of <= 4 calls with soil / bore / sim varied; thorough: additionally <= 5 calls with soil / bore varied
    runs = [(4, mod)] if t == "quick" else [(4, mod), (5, mod.replace(tla({"soil", "bore", "sim"}), tla({"soil", "bore"})))]
    hists, seen_h = [], set()
    for k, m_ in runs:
        cfg = ("INIT InitPreset\nNEXT Next\nCHECK_DEADLOCK FALSE\n" + f"CONSTANTS\n Slots <- c_Slots\n Vary <- c_Vary\n MaxCalls = {k}\n MaxFinds = 2\n"
               + "INVARIANT ResultDependsOnPhysOnly\nINVARIANT Emit\n")
        res = run_tlc("MC_Manager", cfg, extra_modules={"MC_Manager.tla": m_}, workers=1, timeout=1200)
        require_tlc_ok(res, "Manager exhaustive")
        chk.add_tlc(res)
        for h in res.prints:
            key = json.dumps(h["hist"])
            if key not in seen_h:
                seen_h.add(key)
                hists.append(dict(h, preset=True))
    if len(hists) < 100:
        raise MachineryError(f"Manager exhaustive: only {len(hists)} histories")
    return hists


def run() -> int:
    chk = Check("C13")
    t = tier()
    rnd = random.Random(chk.seed)
    chk.rule = ("TLC generates API histories (Manager.tla: setter orders, repeated set_design/find_design, rebuilt managers, interleaved unrelated runs, two nominal "
                "heights; GheObject.tla: all sequences of simulate/size/compute_g/set_H calls); each is executed on the real classes and results are compared "
                "bit-for-bit inside every class of equal physical snapshot; distinct = distinct histories")
    chk.trusted = ["TLC 1.8.0 (simulation mode for manager histories, exhaustive for object histories)"]
    # --- object level ----------------------------------------------------------------------------
    maxlen = 3 if t == "quick" else 4
    mod = f"""---- MODULE MC_GheObject ----
EXTENDS GheObject
c_Heights == {{"h1", "h2", "h3", "h4"}}
c_Fixed == {tla(FIXED_OBJ)}
c_Variants == {{"plain", "radius", "family"}}
====
"""
    consts = f"CONSTANTS\n Heights <- c_Heights\n MaxLen = {maxlen}\n Fixed <- c_Fixed\n Variants <- c_Variants\n"
    cfg = "INIT Init\nNEXT Next\nCHECK_DEADLOCK FALSE\n" + consts + "INVARIANT SimIsFunctionOfArgs\nINVARIANT TableMatchesFamily\n"
    res = run_tlc("MC_GheObject", cfg, extra_modules={"MC_GheObject.tla": mod}, want_prints=False, coverage=True)
    chk.add_tlc(res)
    if res.violated:
        chk.violation(f"GheObject.tla invariant {res.violated} violated", {"state": res.stdout.split('\nState ')[-1][:1500]})
    else:
        require_tlc_ok(res, "GheObject")
    cfg = "INIT Init\nNEXT Next\nCHECK_DEADLOCK FALSE\n" + consts + "INVARIANT Emit\n"
    res = run_tlc("MC_GheObject", cfg, extra_modules={"MC_GheObject.tla": mod}, workers=1)
    require_tlc_ok(res, "GheObject gen")
    ohist = res.prints
    cap = 220 if t == "quick" else 2500
    if len(ohist) > cap:
        # always part of the sample: a lookup OUTSIDE the tabulated heights (h4) on an object with a multi-height family, followed by
        # in-range work (a sizing, or a simulation at another height) - what the out-of-range lookup leaves behind must not matter
        def must(h):
            ops = [c[0] for c in h["hist"]]
            i4 = next((i for i, c in enumerate(h["hist"]) if c[0] == "set_h" and c[1] == "h4"), None)
            return h["variant"] == "family" and i4 is not None and any(o in ("sim_hybrid", "sim_hourly") for o in ops[i4 + 1:-1]) and ops[-1] in ("size_hybrid", "sim_hybrid") \
                and (ops[-1] == "size_hybrid" or any(c[0] == "set_h" and c[1] != "h4" for c in h["hist"][i4 + 1:]))
        forced = [h for h in ohist if must(h)][:24]
        rest = [h for h in ohist if not must(h)]
        ohist = forced + rnd.sample(rest, cap - len(forced))
    for h in ohist:                        # how the object was built is part of the model's state (GheObject.tla: variant)
        h["rb_mismatch"] = h["variant"] == "radius"
        h["multi_gf"] = h["variant"] == "family"
    for h, r in zip(ohist, parallel_map(_exec_object_history, ohist)):
        chk.nontrivial.add(("obj", tuple(map(tuple, h["hist"]))))
        if r.get("bad"):
            chk.violation(f"C13 object history {h['hist']}{' (stored g-function of another borehole radius)' if h.get('rb_mismatch') else ' (multi-height g-function family at the start)' if h.get('multi_gf') else ''}: {r['bad'][0]}", {"history": h["hist"], "bad": r["bad"]})
    chk.traces += len(ohist)
    chk.note("object_histories", len(ohist))
    for b in parallel_map(_shared_inputs_case, [0], procs=1)[0]:
        chk.violation(f"C13 shared inputs: {b}", {})
    # --- manager level ---------------------------------------------------------------------------
    from .p_io import wiring  # noqa: PLC0415

    wiring(chk)      # repeated set_design / replaced input objects: the design that runs is the snapshot of the LAST set_design (Wiring.tla)
    hists = manager_histories(chk, t)
    if len(hists) < 10:
        raise MachineryError("too few manager histories generated")
    # de-duplicate and keep those with the most interesting shapes first
    seen = {}
    for h in hists:
        seen.setdefault(tuple(map(tuple, h["hist"])), h)
    hists = list(seen.values())
    # stratify: classes of equal final snapshot, several members each
    groups = {}
    for h in hists:
        groups.setdefault(snap_key(h["finds"][-1]["snap"]), []).append(h)
    ncls, nmem = (4, 4) if t == "quick" else (8, 15)
    keys = sorted(groups, key=lambda k: -len(groups[k]))[:ncls]
    methods = ["NEARSQUARE", "RECTANGLE", "BIRECTANGLE", "BIZONED"]
    items = []
    for ci, k in enumerate(keys):
        members = groups[k] if len(groups[k]) <= nmem * 4 else rnd.sample(groups[k], nmem * 4)
        for mi, method in enumerate(methods[: 2 if t == "quick" else 4]):
            for h in members[mi * nmem:(mi + 1) * nmem] or members[:nmem]:
                items.append({"hist": h["hist"], "finds": h["finds"], "method": method})
    # exhaustive part: every continuation of a configured manager (see manager_exhaustive)
    exh = manager_exhaustive(chk, t)
    for h in exh:
        for method in (["NEARSQUARE"] if t == "quick" else ["NEARSQUARE", "BIRECTANGLE"]):
            items.append({"hist": h["hist"], "finds": h["finds"], "method": method, "preset": True})
    chk.note("manager_histories_exhaustive", len(exh))
    res_by_class = {}
    outs = parallel_map(_exec_manager_history, items)
    for it, r in zip(items, outs):
        chk.nontrivial.add(("mgr", it["method"], tuple(map(tuple, it["hist"]))))
        if r.get("error"):
            chk.violation(f"C13 manager history raised {r['error']}", {"history": it["hist"], "method": it["method"]})
            continue
        if len(r["results"]) != len(it["finds"]):
            raise MachineryError("history executed a different number of finds than the model")
        for f, out in zip(it["finds"], r["results"]):
            phys = dict(f["snap"])
            key = (it["method"], snap_key(phys))     # preset and free histories share classes: same physics, same expected result
            res_by_class.setdefault(key, []).append((out, it["hist"]))
    classes = 0
    for key, members in res_by_class.items():
        if len(members) > 1:
            classes += 1
        ref, refh = members[0]
        for out, h in members[1:]:
            if out != ref:
                chk.violation(f"C13: {key[0]} design differs between two histories with the same physical snapshot", {"snapshot": key[1], "a": ref, "history_a": refh, "b": out, "history_b": h})
                break
    chk.traces += len(items)
    chk.evaluations += len(items) + len(ohist)
    chk.note("manager_histories", len(items))
    chk.note("snapshot_classes_with_2plus_members", classes)
    chk.sample({"manager_history": items[0]["hist"], "method": items[0]["method"]})
    chk.sample({"object_history": ohist[0]["hist"], "expected_cells": {k: ohist[0][k] for k in ("H", "gf", "axis")}})
    if classes < 3:
        raise MachineryError("vacuity: fewer than 3 snapshot classes with more than one member")
    return chk.finish()


# ------------------------------------------------------------------------------------------------
# object level
# ------------------------------------------------------------------------------------------------
def _shared_inputs_case(_):
    """Two field objects built from the SAME load list: an hourly simulation over two years on the first must not change what an
    hourly simulation over one year on the second returns (nor the caller's list)."""
    import_repo()
    from ghedesigner.enums import TimestepType  # noqa: PLC0415

    bad = []
    with warnings.catch_warnings(), contextlib.redirect_stdout(io.StringIO()):
        warnings.simplefilter("ignore")
        try:
            loads = profile(9000.0)
            original = list(loads)
            a = _mk_ghe(loads, months=24)
            a.simulate(TimestepType.HOURLY)
            if len(a.hp_eft) != 2 * 8760:
                bad.append(f"hourly simulation over 24 months returned {len(a.hp_eft)} temperatures")
            if loads != original:
                bad.append(f"an hourly simulation over two years changed the caller's load list (length {len(original)} -> {len(loads)})")
            b = _mk_ghe(loads, months=12)
            b.simulate(TimestepType.HOURLY)
            ref = _mk_ghe(list(original), months=12)
            ref.simulate(TimestepType.HOURLY)
            if (len(b.hp_eft), fhash(b.hp_eft)) != (len(ref.hp_eft), fhash(ref.hp_eft)):
                bad.append(f"hourly simulation of a field differs after an unrelated two-year hourly simulation on another object sharing the load list ({len(b.hp_eft)} vs {len(ref.hp_eft)} steps)")
        except Exception as ex:  # noqa: BLE001
            bad.append(f"raised {type(ex).__name__}: {ex}")
    return bad
_BASE = {}


def _mk_ghe(loads=None, months=12, gf_rb=None, gf_heights=None):
    import_repo()
    from ghedesigner.borehole import GHEBorehole  # noqa: PLC0415
    from ghedesigner.coordinates import rectangle  # noqa: PLC0415
    from ghedesigner.enums import BHPipeType  # noqa: PLC0415
    from ghedesigner.gfunction import calc_g_func_for_multiple_lengths  # noqa: PLC0415
    from ghedesigner.ground_heat_exchangers import GHE  # noqa: PLC0415
    from ghedesigner.media import GHEFluid, Grout, Pipe, Soil  # noqa: PLC0415
    from ghedesigner.simulation import SimulationParameters  # noqa: PLC0415
    from ghedesigner.utilities import eskilson_log_times  # noqa: PLC0415

    fluid = GHEFluid("water", 0.0, 20.0)
    pipe = Pipe(Pipe.place_pipes(0.01856, 0.02108, 1), 0.01702, 0.02108, 0.01856, 1e-6, 0.4, 1542000.0)
    grout, soil = Grout(1.0, 3901000.0), Soil(2.0, 2343493.0, 18.3)
    bore = GHEBorehole(70.0, 2.0, 0.07, 0.0, 0.0)     # nominal height below the 49-hour clamp of the short-time-step model
    coords = rectangle(2, 2, 5.0, 5.0)
    sp = SimulationParameters(1, months, 35.0, 5.0, 135.0, 60.0)
    m_flow = 0.3 / 1000.0 * fluid.rho
    # gf_rb: radius the stored g-function was computed for; when it differs from the exchanger's, every grab applies the radius correction
    # gf_heights: the object is handed a g-function family with several stored heights (interpolation table, cache) instead of one curve
    gfn = calc_g_func_for_multiple_lengths(5.0, [bore.H] if gf_heights is None else list(gf_heights), bore.r_b if gf_rb is None else gf_rb, bore.D, m_flow, BHPipeType.SINGLEUTUBE, eskilson_log_times(), coords, fluid, pipe, grout, soil)
    return GHE(0.3 * 4, 5.0, BHPipeType.SINGLEUTUBE, fluid, bore, pipe, grout, soil, gfn, sp, profile(9000.0) if loads is None else loads)


# two heights below the 49-hour clamp of the short-time-step model (H < ~86 m for this soil) and one above
# h4 lies OUTSIDE every tabulated height range (compute_g_functions tabulates 60 / 97.5 / 135 m, the two-height family 55 / 140 m):
# a lookup there extrapolates; what it leaves in the g-function object must not change later in-range lookups
HEIGHTS = {"h1": 80.0, "h2": 121.5, "h3": 62.0, "h4": 150.0}


def _fresh_sts(ghe):
    """Give the reference object a brand-new short-time-step model, so that nothing an earlier call may have left in it can be re-used."""
    from ghedesigner.radial_numerical_borehole import RadialNumericalBH  # noqa: PLC0415

    ghe.radial_numerical = RadialNumericalBH(ghe.bhe.to_single())


def _exec_object_history(item):
    import_repo()
    from ghedesigner.enums import TimestepType  # noqa: PLC0415

    bad = []
    with warnings.catch_warnings(), contextlib.redirect_stdout(io.StringIO()):
        warnings.simplefilter("ignore")
        try:
            rb = 0.0762 if item.get("rb_mismatch") else None
            gh = (55.0, 101.0, 140.0) if item.get("multi_gf") else None     # three heights: quadratic interpolation over heights
            g = _mk_ghe(gf_rb=rb, gf_heights=gh)
            out = None
            for call in item["hist"]:
                op = call[0]
                if op == "sim_hybrid":
                    g.simulate(TimestepType.HYBRID)
                elif op == "sim_hourly":
                    g.simulate(TimestepType.HOURLY)
                elif op == "size_hybrid":
                    g.size(TimestepType.HYBRID)
                elif op == "size_hourly":
                    g.size(TimestepType.HOURLY)
                elif op == "compute_g":
                    g.compute_g_functions()
                elif op == "set_h":
                    g.bhe.b.H = HEIGHTS[call[1]]
            if list(g.hourly_extraction_ground_loads) != profile(9000.0):
                bad.append("the caller's hourly load list was modified by the calls")
            out = (float(g.bhe.b.H).hex(), fhash(g.hp_eft), len(g.times))
            # reference: a fresh object brought to the same (gf, H) without any other simulation, then the last call alone
            last = item["hist"][-1][0]
            ref = _mk_ghe(gf_rb=rb, gf_heights=gh)
            if item["gf"] == "triple":
                ref.compute_g_functions()
            # height the last call saw
            hsaw = None
            hcell = item["hp"][1]
            if isinstance(hcell, str):
                hsaw = HEIGHTS.get(hcell)   # "nominal" -> None: keep the constructor's height
            if last in ("size_hybrid", "size_hourly"):
                _fresh_sts(ref)
                ref.size(TimestepType.HYBRID if last == "size_hybrid" else TimestepType.HOURLY)
            else:
                if hsaw is not None:
                    ref.bhe.b.H = hsaw
                elif isinstance(hcell, list):      # <<"root", gf>> : a sized height - reproduce it with a size on a fresh object of that family
                    r2 = _mk_ghe(gf_rb=rb, gf_heights=gh)
                    if hcell[1] == "triple":
                        r2.compute_g_functions()
                    r2.size(TimestepType.HYBRID if hcell[0] == "root" else TimestepType.HOURLY)
                    ref.bhe.b.H = r2.bhe.b.H
                _fresh_sts(ref)
                ref.simulate(TimestepType.HOURLY if last == "sim_hourly" else TimestepType.HYBRID)
            want = (float(ref.bhe.b.H).hex(), fhash(ref.hp_eft), len(ref.times))
            if out != want:
                bad.append(f"result after the history {out} differs from a fresh object's {want}")
            axis = "hourly" if len(g.times) == 8760 else "hybrid"
            if axis != item["axis"]:
                bad.append(f"time axis used: model {item['axis']} vs code {axis}")
        except Exception as ex:  # noqa: BLE001
            bad.append(f"raised {type(ex).__name__}: {ex}")
    return {"bad": bad}
