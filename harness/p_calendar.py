"""Calendar.tla: month helpers (C08) and output time labels / tables (C19)."""
from __future__ import annotations

import contextlib
import csv
import io
import json
import math
import shutil
import tempfile
import warnings
from fractions import Fraction
from pathlib import Path

from .core import BUILD, Check, MachineryError, import_repo, parallel_map, require_tlc_ok, run_tlc, tier


def cal_cfg(max_month, max_hour, den, gmax, invs, emits=()):
    return (f"INIT CInit\nNEXT CNext\nCHECK_DEADLOCK FALSE\nCONSTANTS\n MaxMonth = {max_month}\n MaxHour = {max_hour}\n GridDen = {den}\n GridMax = {gmax}\n"
            + "".join(f"INVARIANT {i}\n" for i in list(invs) + list(emits)))


def month_helpers(chk: Check):
    """C08: monthdays / first_month_hour / last_month_hour equal the reference calendar for months 1..360 (model), and the real
    helpers equal TLC's table."""
    res = run_tlc("Calendar", cal_cfg(360, 0, 1, 0, ["MonthHelpersExact"]), want_prints=False)
    chk.add_tlc(res)
    if res.violated:
        chk.violation(f"Calendar.tla invariant {res.violated} violated", {"state": res.stdout.split('\nState ')[-1][:800]})
        return
    require_tlc_ok(res, "Calendar months")
    res = run_tlc("Calendar", cal_cfg(360, 0, 1, 0, [], ["EmitMonths"]), workers=1)
    require_tlc_ok(res, "Calendar months gen")
    rows = [p for p in res.prints if p.get("t") == "month"]
    if len(rows) != 360:
        raise MachineryError(f"expected 360 month rows, got {len(rows)}")
    import_repo()
    from ghedesigner import ground_loads as gl  # noqa: PLC0415

    for r in rows:
        m = r["m"]
        got = (gl.monthdays(m, 2019), gl.first_month_hour(m, [2019]), gl.last_month_hour(m, [2019]))
        want = (r["days"], r["first"], r["last"])
        if got != want:
            chk.violation(f"C08 calendar helpers for month {m}: (monthdays, first_month_hour, last_month_hour) = {got}, calendar gives {want}", {"month": m, "code": got, "want": want})
            break
    chk.traces += 360
    chk.evaluations += 360
    chk.note("month_helper_rows_replayed", 360)


def _design_outputs(seed):
    """One real tiny design with its output files; returns what C19's table clauses need."""
    import_repo()
    import random  # noqa: PLC0415

    from ghedesigner.manager import GHEManager  # noqa: PLC0415

    from .p_io import build_manager, profile  # noqa: PLC0415

    rnd = random.Random(seed)
    cfgs = [{"method": "NEARSQUARE", "perimeter": False, "pipe": "SINGLEUTUBE", "fluid": "WATER", "flow": "BOREHOLE", "maxbh": False, "cont": False},
            {"method": "RECTANGLE", "perimeter": False, "pipe": "DOUBLEUTUBESERIES", "fluid": "PROPYLENEGLYCOL", "flow": "SYSTEM", "maxbh": False, "cont": True},
            {"method": "BIRECTANGLE", "perimeter": False, "pipe": "COAXIAL", "fluid": "WATER", "flow": "BOREHOLE", "maxbh": True, "cont": True}]
    cfg = cfgs[seed % len(cfgs)]
    loads = [round(x, 3) for x in profile(rnd.uniform(2500, 6000))]
    d = Path(tempfile.mkdtemp(prefix="c19-", dir=BUILD))
    try:
        with warnings.catch_warnings(), contextlib.redirect_stdout(io.StringIO()), contextlib.redirect_stderr(io.StringIO()):
            warnings.simplefilter("ignore")
            m = build_manager(cfg, rnd, loads=loads, small=True)
            m.find_design()
            m.prepare_results("p", "n", "a", "i")
            m.write_output_files(d)
            # the same report written again under two suffixes that differ only after a dot (versioned runs in one directory)
            m.write_output_files(d, "_v1.0")
            m.write_output_files(d, "_v1.5")
            g = m._search.ghe
            gf, _ = g.grab_g_function(g.B_spacing / float(g.bhe.b.H))
            curve = list(zip([float(x) for x in gf.x], [float(y) for y in gf.y]))
            coords = [[float(c[0]), float(c[1])] for c in g.gFunction.bore_locations]
            times = [float(t) for t in g.times]
            hp = [float(x) for x in g.hp_eft]
        rows = {}
        for name in ("Loadings", "BoreFieldData", "Gfunction"):
            with open(d / f"{name}.csv", newline="") as f:
                rows[name] = list(csv.reader(f))
        suffixed = {}
        for suf in ("_v1.0", "_v1.5"):
            for name in ("Loadings", "BoreFieldData", "Gfunction", "TimeDependentValues"):
                f2 = d / f"{name}{suf}.csv"
                suffixed[f"{name}{suf}.csv"] = f2.read_bytes() == (d / f"{name}.csv").read_bytes() if f2.exists() else None
        summary = json.loads((d / "SimulationSummary.json").read_text())
        return {"loads": loads, "rows": rows, "curve": curve, "coords": coords, "times": times, "hp": hp,
                "max_time": summary["simulation_results"]["max_hp_eft_time"]["value"], "min_time": summary["simulation_results"]["min_hp_eft_time"]["value"],
                "cfg": cfg, "suffixed": suffixed}
    except Exception as ex:  # noqa: BLE001
        return {"error": f"{type(ex).__name__}: {ex}", "cfg": cfg}
    finally:
        shutil.rmtree(d, ignore_errors=True)


def _hourly_output_case(seed):
    """A field object simulated with the HOURLY method over two years, then reported: the Loadings table must still echo the 8760 inputs
    (judged against a private copy of what was passed in) with the calendar labels, and list the field's coordinates."""
    import_repo()
    from types import SimpleNamespace  # noqa: PLC0415

    from ghedesigner.enums import TimestepType  # noqa: PLC0415
    from ghedesigner.output import OutputManager  # noqa: PLC0415

    from .p_history import profile  # noqa: PLC0415
    from .p_numeric import _mk_real_ghe  # noqa: PLC0415

    try:
        with warnings.catch_warnings(), contextlib.redirect_stdout(io.StringIO()), contextlib.redirect_stderr(io.StringIO()):
            warnings.simplefilter("ignore")
            g = _mk_real_ghe(1, 2, 90.0, months=24)
            reference = list(profile(9000.0 * 2))
            g.simulate(method=TimestepType.HOURLY)
            g.field_type, g.fieldSpecifier = "rectangle", "1x2"
            out = OutputManager(SimpleNamespace(ghe=g, searchTracker=[["1x2", 0.0, 0.0, 0.0]]), 0.0, "p", "n", "a", "m", load_method=TimestepType.HOURLY)
            rows = [list(r) for r in out.hourly_loading_data_rows[1:]]
            # a second report in the same process, for another field with other loads: its table echoes ITS loads, and the table
            # already handed out for the first field does not change
            g2 = _mk_real_ghe(1, 1, 100.0, months=12, amp=4321.0)
            reference2 = list(profile(4321.0))
            g2.simulate(method=TimestepType.HYBRID)
            g2.field_type, g2.fieldSpecifier = "rectangle", "1x1"
            out2 = OutputManager(SimpleNamespace(ghe=g2, searchTracker=[["1x1", 0.0, 0.0, 0.0]]), 0.0, "p", "n", "a", "m", load_method=TimestepType.HYBRID)
            rows2 = [list(r) for r in out2.hourly_loading_data_rows[1:]]
            rows_again = [list(r) for r in out.hourly_loading_data_rows[1:]]
            # a shallow field (62 m): the 49-hour short-time response overlaps the long-time axis, so the joined curve drops short-time nodes
            g3 = _mk_real_ghe(1, 2, 62.0, months=12)
            g3.simulate(method=TimestepType.HYBRID)
            g3.field_type, g3.fieldSpecifier = "rectangle", "1x2"
            out3 = OutputManager(SimpleNamespace(ghe=g3, searchTracker=[["1x2", 0.0, 0.0, 0.0]]), 0.0, "p", "n", "a", "m", load_method=TimestepType.HYBRID)
            gf3, _ = g3.grab_g_function(g3.B_spacing / float(g3.bhe.b.H))
            gf_rows = [(float(r[0]), float(r[1])) for r in out3.g_function_data_rows[1:]]
            curve3 = list(zip([float(x) for x in gf3.x], [float(y) for y in gf3.y]))
            # the same field given in site coordinates (origin inside the lot): negative values, rotation round-off, tiny offsets - the bore
            # field table echoes them as they are
            site = [(-52.63, -20.96), (-47.63, 1.0e-9), (-3.552713678800501e-15, 4.04), (0.0, -0.0005), (12.5, 7.25)]
            g4 = _mk_real_ghe(1, 1, 100.0, months=12, amp=4321.0)
            g4.simulate(method=TimestepType.HYBRID)
            g4.field_type, g4.fieldSpecifier = "rowwise", "site"
            g4.gFunction.bore_locations = list(site)
            out4 = OutputManager(SimpleNamespace(ghe=g4, searchTracker=[["site", 0.0, 0.0, 0.0]]), 0.0, "p", "n", "a", "m", load_method=TimestepType.HYBRID)
            d4 = Path(tempfile.mkdtemp(prefix="c19s-", dir=BUILD))
            try:
                out4.write_all_output_files(d4)
                with open(d4 / "BoreFieldData.csv", newline="") as f:
                    site_rows = [[float(a), float(b)] for a, b in list(csv.reader(f))[1:]]
            finally:
                shutil.rmtree(d4, ignore_errors=True)
        return {"site": [list(x) for x in site], "site_rows": site_rows,"rows": rows, "loads": reference, "rows2": rows2, "loads2": reference2, "first_table_unchanged": rows_again == rows,
                "gf_rows": gf_rows, "curve3": curve3}
    except Exception as ex:  # noqa: BLE001
        return {"error": f"{type(ex).__name__}: {ex}"}


def run_c19() -> int:
    chk = Check("C19")
    t = tier()
    chk.rule = ("Calendar.tla: ghe_time_convert equals the reference calendar for all 8760 hours; hours_to_month equals the reference, is monotone, continuous and integer at month "
                "ends on a sub-hour grid; the real static methods are replayed on the same domains against TLC's tables; real design outputs are compared with the inputs, the "
                "selected field and the simulated curve; distinct = hours + grid points")
    chk.trusted = ["TLC 1.8.0"]
    den = 4
    gmax = 8760 * den * (3 if t == "quick" else 30)
    invs = ["TimeConvertExact", "HoursToMonthExact", "HoursToMonthMonotone", "HoursToMonthContinuous", "MonthEndsAtIntegers", "MonthHelpersExact"]
    res = run_tlc("Calendar", cal_cfg(360, 8759, den, gmax, invs), want_prints=False, timeout=6000)
    chk.add_tlc(res)
    if res.violated:
        chk.violation(f"Calendar.tla invariant {res.violated} violated", {"state": res.stdout.split('\nState ')[-1][:800]})
    else:
        require_tlc_ok(res, "Calendar")
    # tables for the replay (grid: one year at quarter hours is printed; the rest of the grid is judged by the transliteration below)
    res = run_tlc("Calendar", cal_cfg(1, 8759, den, 8760 * den, [], ["EmitHours", "EmitGrid"]), workers=1, timeout=3000)
    require_tlc_ok(res, "Calendar gen")
    hours = {p["h"]: tuple(p["mdh"]) for p in res.prints if p.get("t") == "hour"}
    grid = {p["q"]: p["r"] for p in res.prints if p.get("t") == "grid"}
    if len(hours) != 8760 or len(grid) != 8760 * den + 1:
        raise MachineryError(f"calendar tables incomplete: {len(hours)} hours, {len(grid)} grid points")
    import_repo()
    from ghedesigner.output import OutputManager  # noqa: PLC0415

    for h in range(8760):
        got = tuple(OutputManager.ghe_time_convert(h))
        if got != hours[h]:
            chk.violation(f"C19 ghe_time_convert({h}) = {got}, calendar gives {hours[h]}", {"hour": h, "code": got, "want": hours[h]})
            break

    def ref(q):      # transliteration of HoursToMonthRef, bound to TLC by the printed year
        yh = 8760 * den
        ny, rem = divmod(q, yh)
        cum = [0, 744, 1416, 2160, 2880, 3624, 4344, 5088, 5832, 6552, 7296, 8016, 8760]
        m = 0
        if rem:
            m = next(mm for mm in range(12) if cum[mm] * den < rem <= cum[mm + 1] * den)
        return Fraction(ny * 12 + m) + Fraction(rem - cum[m] * den, (cum[m + 1] - cum[m]) * den)

    for q, r in grid.items():
        if ref(q) != Fraction(r[0]) + Fraction(r[1], r[2]):
            raise MachineryError(f"transliteration of HoursToMonthRef disagrees with TLC at q={q}")
    prev = -1.0
    nq = 0
    step = 1 if t == "thorough" else 1
    for q in range(0, gmax + 1, step):
        v = OutputManager.hours_to_month(q / den)
        want = ref(q)
        nq += 1
        if abs(v - float(want)) > 1e-12 * max(1.0, float(want)) or v < prev:
            chk.violation(f"C19 hours_to_month({q / den}) = {v!r}, reference {float(want)!r} (previous grid value {prev!r})", {"hours": q / den, "code": v, "want": float(want)})
            break
        prev = v
    chk.evaluations += 8760 + nq
    chk.traces += 8760 + nq
    chk.nontrivial = set(range(min(8760 + nq, 10**6)))
    chk.note("hours_replayed", 8760)
    chk.note("grid_points_replayed", nq)
    chk.sample({"hour": 1415, "label": hours[1415]})
    chk.sample({"hours": 743.75, "months": grid[743 * 4 + 3]})
    # real outputs
    seeds = [chk.seed * 3 + i for i in range(2 if t == "quick" else 9)]
    for seed, o in zip(seeds, parallel_map(_design_outputs, seeds)):
        if "error" in o:
            chk.violation(f"C19 design for the table clauses raised {o['error']}", o)
            continue
        lr = o["rows"]["Loadings"][1:]
        ok = len(lr) == 8760
        bad = None
        if ok:
            for h, row in enumerate(lr):
                want = [str(x) for x in hours[h]] + [str(h), repr(o["loads"][h])]
                if row[:4] != want[:4] or float(row[4]) != o["loads"][h]:
                    bad = (h, row, want)
                    break
        if not ok or bad:
            chk.violation(f"C19 Loadings table does not echo the input loads with calendar labels (rows {len(lr)}, first mismatch {bad})", {"cfg": o["cfg"], "mismatch": bad})
        for fname, same in o["suffixed"].items():
            if same is not True:
                chk.violation(f"C19 table file {fname} {'was not written' if same is None else 'differs from the table of the same report written without suffix'}", {"cfg": o["cfg"], "file": fname})
                break
        br = [[float(a), float(b)] for a, b in o["rows"]["BoreFieldData"][1:]]
        if br != o["coords"]:
            chk.violation("C19 BoreFieldData table differs from the selected coordinates", {"cfg": o["cfg"], "table": br[:5], "selected": o["coords"][:5]})
        gr = [(float(r[0]), float(r[1])) for r in o["rows"]["Gfunction"][1:]]
        if any(b[0] <= a[0] for a, b in zip(gr, gr[1:])):
            chk.violation("C19 Gfunction table time column is not strictly increasing", {"cfg": o["cfg"]})
        if gr != o["curve"]:
            chk.violation("C19 Gfunction table differs from the curve used in the simulation", {"cfg": o["cfg"], "table": gr[:3], "curve": o["curve"][:3]})
        imax = o["hp"].index(max(o["hp"]))
        imin = o["hp"].index(min(o["hp"]))
        for nm, idx, rep in (("max", imax, o["max_time"]), ("min", imin, o["min_time"])):
            want = OutputManager.hours_to_month(o["times"][idx])
            if abs(want - rep) > 1e-9:
                chk.violation(f"C19 {nm}_hp_eft_time {rep} is not hours_to_month of the arg-{nm} time {o['times'][idx]} ({want})", {"cfg": o["cfg"]})
        chk.traces += 1
    o = parallel_map(_hourly_output_case, [0], procs=1)[0]
    if "error" in o:
        chk.violation(f"C19 reporting a two-year HOURLY simulation raised {o['error']}", o)
    else:
        lr = o["rows"]
        bad = None
        for h, row in enumerate(lr[:8760]):
            if tuple(row[:3]) != hours[h] or row[3] != h or float(row[4]) != o["loads"][h]:
                bad = (h, row)
                break
        if len(lr) != 8760 or bad:
            chk.violation(f"C19 Loadings table after a two-year HOURLY simulation does not echo the 8760 input loads (rows {len(lr)}, first mismatch {bad})", {"rows": len(lr)})
        bad2 = None
        for h, row in enumerate(o["rows2"][:8760]):
            if len(row) != 5 or tuple(row[:3]) != hours[h] or row[3] != h or float(row[4]) != o["loads2"][h]:
                bad2 = (h, row)
                break
        if len(o["rows2"]) != 8760 or bad2:
            chk.violation(f"C19 Loadings table of a second report in the same process does not echo that field's own loads (rows {len(o['rows2'])}, first mismatch {bad2})", {"mismatch": bad2})
        if any(b[0] <= a[0] for a, b in zip(o["gf_rows"], o["gf_rows"][1:])):
            chk.violation("C19 Gfunction table of a shallow (62 m) field: time column not strictly increasing", {})
        if o["site_rows"] != o["site"]:
            chk.violation(f"C19 BoreFieldData table of a field given in site coordinates differs from the field's coordinates: {o['site_rows']} vs {o['site']}", {"table": o["site_rows"], "field": o["site"]})
        if o["gf_rows"] != o["curve3"]:
            chk.violation(f"C19 Gfunction table of a shallow (62 m) field differs from the curve used in the simulation ({len(o['gf_rows'])} rows vs {len(o['curve3'])} points)", {"table": o["gf_rows"][:4], "curve": o["curve3"][:4]})
        if not o["first_table_unchanged"]:
            chk.violation("C19 the Loadings table of an earlier report changed when a later report was prepared", {})
        chk.traces += 1
    chk.note("real_designs_with_tables", len(seeds) + 1)
    chk.exhaustive = True
    return chk.finish()
