"""Regenerates MANIFEST.json from the table below (python -m harness.manifest_gen)."""
import json
from pathlib import Path

V = Path(__file__).resolve().parent.parent

CHECKS = {
    "C01": ("model_checking", "Search.tla model checking + spec->code replay (B1) + trace validation of real runs (B2)",
            "TLC exhausts every oracle (sign pattern / threshold / sizing outcome) of the four searches within the stated list sizes and shows the selected design is feasible at the returned height; every terminal behaviour is replayed into the real search classes with a physics double, so the verdict transfers to the control code; real-physics runs are validated as traces.",
            "physics doubles replace GHE.simulate / g-function computation in B1; real physics is sampled, not exhausted; oracle ties are not judged; 'over the requested horizon' is judged on real runs by a simulation that runs one month longer (horizons below two years, some ending in the month of the seasonal extreme)", "5/C01"),
    "C02": ("model_checking", "Search.tla invariants + liveness (TLC) + spec->code replay (B1)",
            "Height window, borehole cap, unmet policy, exception class and termination are invariants / a liveness property of the search model, exhaustive over caps, continue flag and oracles, transferred to the code by replaying every behaviour.",
            "same doubles as C01; non-degenerate input means no exact-zero excess, cap >= 2, first candidate has one borehole; an empty candidate domain (spacing window without a whole row count) is valid input and must end in ValueError (F23, repaired); the policy and the cap are also run through the input-file entry point (5 near-square runs)", "5/C02"),
    "C05": ("model_checking", "Search.tla invariants (TLC) + TLAPS proof of the bisection loop for arbitrary list length (BisectProof.tla) bound by a TLC refinement check + spec->code replay (B1)",
            "Predecessor-fails, first-feasible-under-monotone, no-less-drilling-evaluated and root-unless-clamped are invariants over all list lengths up to 64 and all lazily chosen sign patterns; replayed into the real classes including real solve_root / brentq.",
            "oracle ties excluded (NoTies); drilling comparison uses field-specific root heights to avoid float ties; the TLAPS proof covers the loop's natural exit, not max_iter - domains that come close to the step budget (up to 300 lists x 900 candidates) are run through the real classes with a monotone excess and judged by the invariants' mirrors; 2D configurations assume what Domains.tla checks of real bi-rectangle lists (first field single, list 0 long enough)", "5/C05"),
    "C12": ("model_checking", "Search.tla invariants (TLC) + spec->code replay (B1) + output-file trace validation (B2)",
            "What hp_eft describes (lastSim) and what is returned (field, height) are state variables of the model; ReportedIsLastSim is checked in every terminal state for all four solve_root outcomes and all searches, then on the real objects.",
            "hp_eft of the double is what simulate() last produced; summary/CSV consistency and the per-borehole flow (N boreholes sharing a system flow) are judged on real runs (B2)", "5/C12"),
    "C20": ("model_checking", "Search.tla flow bookkeeping + Wiring.tla forwarding table (TLC) + spec->code replay (B1) + paired real runs (B2)",
            "Every evaluation event of the model carries the system flow and per-borehole mass flow implied by the flow type and the field's count; the replay compares them with what the real retrieve_flow hands to GHE and to the g-function call for every search class. Wiring.tla is a history machine (set_design called again with another flow type / rate, setters replacing input objects): 2088 histories are replayed on the real manager and the search must be constructed from the snapshot of the last set_design.",
            "fluid density is a constant of the double in B1; real fluids in B2", "5/C20"),
    "C06": ("model_checking", "HybridLoads.tla model checking + replay into process_month_loads / HybridLoad constructor (B1 levels A, B)",
            "Per-month energy conservation is a structural invariant of the segment machine (segments tile the month, every due pulse lasts its duration, average time equals the divisor of the monthly rate); TLC enumerates peak presence x peak-day order x first/middle/last day x duration classes x retention flags x horizons and the real code is replayed on every case.",
            "level B stubs the 48-hour peak-duration simulation; conservation on the code's own arrays is measured in exact rationals with tolerance 1e-8 of the month's absolute energy plus the 1e-6 h placeholder term", "5/C06"),
    "C07": ("model_checking", "HybridLoads.tla + PeakScale.tla + Calendar.tla windows (TLC) + replay (B1 levels A, B) + real hourly profiles through the real HybridLoad (B2/B3)",
            "Pulse presence / absence, sign, retention months, duration range and centring are invariants of the same machine over the same enumerated input classes, replayed into the real code.",
            "durations are inputs of the month machine; the Cullin-Spitler definition (last clause) is judged by the spec-bound superposition reference on random 48 h windows and on random real hourly profiles (month-end snaps, one-direction months); which load the window is scaled by is PeakScale.tla, replayed case by case", "5/C07"),
    "C08": ("model_checking", "HybridLoads.tla + Calendar.tla (TLC) + replay (B1)",
            "Month-end breakpoints, horizon end, yearly repetition and strict monotonicity unless windows overlap are invariants over all horizons in the configuration; the calendar helpers are proved equal to the reference calendar for months 1..360 and replayed against the real helpers.",
            "leap and non-leap load years; real hourly profiles are sampled", "5/C08"),
    "C03": ("model_checking", "Domains.tla symbolic generators (TLC) + list-for-list replay of the real generators + random real-valued lots",
            "Each generator is transcribed as an exact-rational loop; TLC checks extents, spacing and ordering of every candidate on every admissible integer lot of the configuration, and the real generators are compared candidate by candidate (count, extents from real coordinates, minimum pair distance measured with a KD-tree).",
            "lots where a float ceil/floor/ratio comparison differs from exact arithmetic are judged by the property predicates only (either rounding is legal); lots whose spacing window admits no whole row count are included (no candidate may appear); bi-rectangle row-count rounding (F15) was repaired in /repo (a13b64d)", "5/C03"),
    "C04": ("model_checking", "Polygon.tla land-constraint filter (TLC) + replay of remove_cutout + end-to-end polygonal_land_constraint on random outlines",
            "The kept set of all 49 half-lattice points is computed in the model for every simple lattice polygon x each no-go polygon and compared with remove_cutout; the end-to-end generator is judged with the exact rational classifier bound to the specification.",
            "lattice scaled by 5 m so no off-edge lattice point falls in the 0.01 tolerance band; random outlines are star-shaped simple polygons, one or two outlines in either list order, no-go zones inside or overhanging; the grid extent is computed by the harness from all vertices", "5/C04"),
    "C16": ("model_checking", "Polygon.tla exhaustive classification (TLC, two independent rays) + replay of point_polygon_check on all rotations/orientations",
            "Exhaustive over all simple polygons with 3..5 (thorough: 6) vertices on the 4x4 lattice and all 49 half-lattice points: the crossing-number classification of the model (guarded by an independent vertical-ray classification) is compared with the real function for every vertex rotation and both orientations.",
            "random real-valued polygons are judged only outside the tolerance band", "5/C16"),
    "C13": ("model_checking", "Manager.tla / GheObject.tla history generation (TLC) + execution of every history on the real classes with bit-for-bit comparison",
            "Object identity, snapshot capture at set_design and the cells that survive between simulate/size calls are modelled as state; TLC generates API histories (exhaustively at object level, by simulation at manager level) and every history is executed on the real code; results must be bit-identical inside each class of equal physical snapshot and equal to a fresh object's.",
            "manager histories: every continuation of <= 4 (thorough 5) calls after a configured manager exhaustively, longer ones TLC-simulated; Wiring.tla histories as in C20; every other object history uses a stored g-function of another borehole radius; tiny configurations (4-20 boreholes, 12 months) plus one shared-load-list scenario (24-month hourly run on one object, 12-month on another)", "5/C13"),
    "C17": ("model_checking", "InputFile.tla over the configuration product with schema facts regenerated from the repository (TLC) + write/validate/load/write replay",
            "WrittenIsValid, RoundTrip and WriteIsIdempotent are checked by TLC for all 1680 configurations against the repository's own schema requirements; every configuration (quick: a covering sample) is executed through the real setters, writer, validator and command-line loader and the two files compared byte for byte.",
            "numeric values are random in range per seed; schema facts used by the model: required keys and enumerations", "5/C17"),
    "C18": ("model_checking", "Cli.tla decision machine (TLC) + subprocess runs of the real entry point + schema-conjunction oracle for every single-field corruption",
            "The command's decision tree is a 6-input machine whose exit status and outputs are invariants; each distinguishable case is run as a subprocess, and the validator's verdict is compared with an independent jsonschema evaluation for every corruption the schemas admit.",
            "python -m ghedesigner.manager is taken as the console script; corruption base is one near-square single-U file", "5/C18"),
    "C19": ("model_checking", "Calendar.tla exhaustive (TLC) + replay of the real static methods + output-table trace of real designs",
            "Time labels are proved equal to the reference calendar for all 8760 hours and hours_to_month exact / monotone / continuous on a quarter-hour grid (3 years quick, 30 years thorough); the real functions are replayed on the same domains; real design outputs are compared with inputs, selected field and simulated curve.",
            "table clauses are judged on a few real designs (2 quick, 9 thorough) and one field object simulated HOURLY over two years", "5/C19"),
    "C09": ("model_checking", "Superposition.tla small-domain theorems (TLC) + replay of _simulate_detailed + spec-bound reference on real GHE objects",
            "The documented formula is an operator over integers; TLC checks zero-load, linearity, additivity and sign on every load/time sequence within the bounds and prints exact values; the real _simulate_detailed is replayed on every case, and real simulate() runs (both time-step methods) are judged step by step by a transliteration that is itself checked against the same TLC output.",
            "real-valued runs are sampled (5 quick / 16 thorough objects incl. a 24-month hourly run); tolerance 1e-9 relative", "5/C09"),
    "C11": ("model_checking", "GJoin.tla exhaustive axis pairs + GInterp.tla decision table (TLC) + replay of combine_sts_lts / g_function_interpolation + real GFunction / GHE objects",
            "The join is exhaustively checked over all pairs of integer axes within the bounds and replayed into the real static method; the stored-height identity, the radius correction and the interpolation cache are exercised on real GFunction objects (tables stored in shuffled height order), the decision table and cache of g_function_interpolation are GInterp.tla replayed case by case, and both join branches run on real GHE objects.",
            "the analytical finite-line-source anchor (1e-4 / 1e-6) and the 20 % band are measured on a few fields against an independent scipy.quad reference (no model: numerical statement; irregular / large fields: listed finding F27); exact float coincidence of a short-time point with -8.5 is the listed finding F17", "5/C11"),
    "C14": ("model_checking", "RowWiseSweep.tla sweep + liveness (TLC) + replay with count oracle + closed-form lattice + watchdog runs on random convex lots",
            "First-strict-maximum selection and termination of the sweep are checked exhaustively on the model and replayed into both optimisers; the closed-form lattice is compared on every integer lot in range; geometry clauses (inside, no-go, spacing, translation) are measured on random convex lots under a wall-clock watchdog.",
            "geometry clauses are sampled (exploration); translation is judged only when per-rotation counts agree (borderline row ends are fp-dependent); exact-divisible lot sizes accept either rounding; a row through two no-go vertices is the listed finding F20", "5/C14"),
    "C15": ("other", "EquivPipe.tla (thin model, TLC) + batch trace validation of recorded to_single() conversions (EquivTrace.tla)",
            "Trace invariants over a thin model: each recorded conversion is a 5-event trace with measured deviations; TLC validates all traces in one run and returns a verdict per trace. Volumes and the bracketed pipe-conductivity solve are judged; the grout solve never brackets on this tree (listed finding F11).",
            "random geometries incl. heavy-wall pipes; R_b* evaluated by pygfunction for both exchangers; the convective+pipe target is the tool's documented definition, evaluated by the harness on the raw inputs (the double-U convective 'area' n pi (2 r_in)^2 is taken as given, observation F24)", "5/C15"),
}

NOT_APPLICABLE = [
    {"property_id": "C10", "reason": "pure real-valued PDE numerics (finite-volume conservation, monotonicity, 0.5% agreement with a finer mesh): no discrete state or case analysis for a TLA+ model to explore; see DESIGN.md section 10"},
]

PENDING = ["C03", "C04", "C06", "C07", "C08", "C09", "C11", "C13", "C14", "C15", "C16", "C17", "C18", "C19"]


def main():
    checks = []
    for pid, (level, tech, text, note, ref) in CHECKS.items():
        checks.append({
            "property_id": pid,
            "quick_cmd": f"./check {pid} --tier quick",
            "thorough_cmd": f"./check {pid} --tier thorough",
            "evidence_file": f"evidence/{pid}.json",
            "replay_cmd_template": f"./check {pid} --replay {{path}}",
            "engine": "tlc+harness",
            "level_claimed": {"category": level, "text": text, "design_ref": f"DESIGN.md section {ref}"},
            "level_note": note,
            "technique": tech,
        })
    na = list(NOT_APPLICABLE)
    for pid in PENDING:
        if pid not in CHECKS:
            na.append({"property_id": pid, "reason": "check not built yet in this round (planned in DESIGN.md section 11); not claimed"})
    m = {
        "version": 1,
        "setup_cmd": "./setup.sh",
        "hooks": {
            "guard": "GHEDESIGNER_VERIF",
            "enable": "no source hooks: the harness wraps the repository's classes from outside at import time (DESIGN.md section 7); checks import ghedesigner from $VERIF_REPO (default /repo)",
            "baseline_off_cmd": "cd /repo && /venv/bin/python -m pytest -ra -q -p no:cacheprovider --timeout=900 --continue-on-collection-errors",
            "source_commits": [],
            "add_only": True,
        },
        "engines": [
            {"name": "tlc+harness", "path": "check", "serves_properties": sorted(CHECKS), "kind_free_text": "TLA+ specifications in spec/ checked with TLC 1.8; behaviours replayed into / traces recorded from the real Python code by harness/"},
        ],
        "checks": checks,
        "not_applicable": na,
        "notes": "Known findings: known_findings.txt. Fix commits in /repo start with 'fix:'.",
    }
    (V / "MANIFEST.json").write_text(json.dumps(m, indent=1) + "\n")


if __name__ == "__main__":
    main()
