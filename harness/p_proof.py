"""Unbounded part of C05 / C01 for the bisect branch: the TLAPS proof of BisectProof.tla (arbitrary list length) is re-checked by tlapm,
and TLC checks that the bounded model of the code (Search.tla) refines the proved module (SearchRefinesBisect.tla)."""
from __future__ import annotations

import re
import shutil
import subprocess

from .core import SPEC, Check, MachineryError, run_tlc, scratch, tier


def tlapm_check(chk: Check):
    exe = shutil.which("tlapm")
    if exe is None:
        raise MachineryError("tlapm not on PATH")
    d = scratch("tlapm")
    try:
        shutil.copy(SPEC / "BisectProof.tla", d / "BisectProof.tla")
        p = subprocess.run([exe, "--threads", "8", "--cleanfp", "BisectProof.tla"], cwd=d, capture_output=True, text=True, timeout=1800)
        out = p.stdout + p.stderr
    finally:
        shutil.rmtree(d, ignore_errors=True)
    m = re.search(r"All (\d+) obligations? proved", out)
    if not m:
        raise MachineryError("tlapm did not prove BisectProof.tla: " + out[-600:])
    chk.note("tlaps_obligations_proved", int(m.group(1)))
    chk.checker_cmds.append("tlapm --threads 8 --cleanfp spec/BisectProof.tla")
    return int(m.group(1))


def refinement(chk: Check):
    from .p_search import FIXED, mc_module, model_runs  # noqa: PLC0415

    t = tier()
    n = 0
    for mode in ("1D", "2D", "ZD"):
        for label, cfgs, vals, maxiter, rwp in model_runs(mode, t):
            if t == "quick" and label not in ("1D-big-2val", "2D-4val", "ZD-sawtooth-4val"):
                continue
            mod, consts = mc_module(mode, cfgs, vals, maxiter, FIXED, **rwp)
            mod = mod.replace("EXTENDS Search", "EXTENDS SearchRefinesBisect")
            cfg = "INIT Init\nNEXT Next\nCHECK_DEADLOCK FALSE\n" + consts + "PROPERTY BisectRefines\nINVARIANT BisectInv\nINVARIANT BisectAdjacent\n"
            res = run_tlc("MC_Search", cfg, extra_modules={"MC_Search.tla": mod}, want_prints=False, timeout=3000)
            chk.add_tlc(res)
            if res.violated or not res.ok:
                # Search.tla (the model that is replayed into the code) no longer has the structure the proof talks about
                chk.violation(f"Search.tla ({label}) does not refine the TLAPS-proved bisection loop: {res.violated or (res.error or '')[:200]}", {"run": label})
                return n
            n += 1
    chk.note("refinement_runs_Search_implies_BisectProof", n)
    return n


def run_for(chk: Check):
    tlapm_check(chk)
    refinement(chk)
    hourly_root(chk)
    large_domains(chk)


def _large_case(case):
    """One search over a candidate domain far beyond the bounded model (the proof covers the loop for any length; the code's step
    budget max_iter is a constant the proof abstracts from): the real search classes on lazily built candidate lists, a strictly
    monotone excess with its threshold at a drawn position, judged by the mirrors of Search.tla's invariants."""
    import random  # noqa: PLC0415

    from . import doubles, judge  # noqa: PLC0415

    mode, nl, ln, seed = case
    rnd = random.Random(seed)
    if mode == "1D":
        lists = [list(range(1, ln + 1))]
    else:
        # list j: a single borehole, then j + 2, j + 3, ... boreholes: increasing along the list, last elements increasing with j. The counts
        # are kept small on purpose: the outer search of Bisection2D holds the last field of EVERY list in memory
        lists = [[1] + [j + k for k in range(2, ln + 1)] for j in range(1, nl + 1)]
    allc = sorted({c for l in lists for c in l})
    need = rnd.choice(allc[1:]) - 0.5
    b = {"mode": mode, "cfg": {"lists": lists, "cap": 0, "cont": False, "flow": "BOREHOLE" if seed % 2 else "SYSTEM"}, "memo": [], "need": need, "rwgrid": 8, "lazy": True}
    rec = doubles.run_behaviour(b)
    out = rec["out"]
    if out["k"] != "sel":
        return f"{mode} domain of {nl} list(s) x {ln} candidates, {need + 0.5:g} boreholes needed: no design ({out})"
    v = judge.judge(mode, b["cfg"], rec["oracle"], rec)
    bad = [k for k in ("PredecessorFails", "FirstFeasibleIfMonotone", "NoLessDrillingEvaluated", "RootUnlessClamped", "FinalExcessNonPositive") if v.get(k) is False]
    n_sel = lists[out["f"][0] - 1][out["f"][1] - 1]
    if mode == "1D" and n_sel != need + 0.5:
        bad.append("first feasible candidate not selected")
    if bad:
        return (f"{mode} domain of {nl} list(s) x {ln} candidates, {need + 0.5:g} boreholes needed: selected candidate {out['f']} with {n_sel} boreholes after "
                f"{sum(1 for e in rec['log'] if e['e'] == 'eval')} evaluations violates {bad}")
    return None


def large_domains(chk: Check):
    from .core import parallel_map  # noqa: PLC0415

    # 2D: the first list must be longer than the number of lists (the outer search borrows its descriptors: Domains.tla BiRectFirstListLongEnough);
    # the doubles encode a candidate as list * 1000 + index, hence fewer than 1000 candidates per list
    sizes = [("2D", 126, 270), ("2D", 60, 64), ("2D", 130, 600), ("2D", 300, 900), ("1D", 1, 999), ("1D", 1, 700)]
    reps = 3 if tier() == "quick" else 12
    cases = [(m, nl, ln, chk.seed * 1000 + 17 * k + i) for i, (m, nl, ln) in enumerate(sizes) for k in range(reps)]
    for c, bad in zip(cases, parallel_map(_large_case, cases, chunksize=1)):
        chk.traces += 1
        chk.evaluations += 1
        if bad:
            chk.violation(f"C05 large candidate domain: {bad}", {"case": c})
    chk.note("large_domain_searches", len(cases))


def _hourly_root_case(case):
    """GHE.size with the HOURLY method on a real field object: unless clamped, the returned height is a root of the HOURLY excess."""
    import contextlib  # noqa: PLC0415
    import io  # noqa: PLC0415
    import warnings  # noqa: PLC0415

    from .core import import_repo  # noqa: PLC0415
    from .p_numeric import _mk_real_ghe  # noqa: PLC0415

    import_repo()
    from ghedesigner.enums import TimestepType  # noqa: PLC0415

    n1, n2, amp = case
    with warnings.catch_warnings(), contextlib.redirect_stdout(io.StringIO()):
        warnings.simplefilter("ignore")
        try:
            g = _mk_real_ghe(n1, n2, 100.0, soil_k=2.2, months=12, amp=amp)
            g.size(TimestepType.HOURLY)
            h = float(g.bhe.b.H)
            reported = g.cost(max(g.hp_eft), min(g.hp_eft))
            mx, mn = g.simulate(TimestepType.HOURLY)
            excess = g.cost(mx, mn)
            # is the HOURLY excess changing sign around the returned height?
            lo_h, hi_h = g.sim_params.min_height, g.sim_params.max_height
            return {"H": h, "excess": float(excess), "reported": float(reported), "clamped": not (lo_h + 1e-6 < h < hi_h - 1e-6), "steps": len(g.hp_eft)}
        except Exception as ex:  # noqa: BLE001
            return {"error": f"{type(ex).__name__}: {ex}"}


def hourly_root(chk: Check):
    from .core import parallel_map  # noqa: PLC0415

    cases = [(2, 2, 2600.0), (1, 2, 2200.0)] if tier() == "quick" else [(2, 2, 2600.0), (1, 2, 2200.0), (1, 2, 3000.0), (2, 2, 3400.0), (3, 3, 2400.0), (2, 3, 2900.0), (2, 2, 5200.0)]
    n = 0
    for c, r in zip(cases, parallel_map(_hourly_root_case, cases)):
        if "error" in r:
            chk.violation(f"C05: GHE.size(HOURLY) on a {c[0]}x{c[1]} field raised {r['error']}", {"case": c})
            continue
        n += 1
        if r["steps"] != 8760:
            chk.violation(f"C05: GHE.size(HOURLY) left {r['steps']} temperatures, not the hourly year", {"case": c, "result": r})
        if not r["clamped"] and abs(r["excess"]) > 1e-3:
            chk.violation(f"C05: GHE.size(HOURLY) on a {c[0]}x{c[1]} field returns H = {r['H']:.4f} m where the HOURLY excess is {r['excess']:.4g} K: not a root of the "
                          "objective of the requested time-step method", {"case": c, "result": r})
    chk.note("hourly_sizing_roots_checked", n)
    chk.traces += n


def hourly_report(chk: Check):
    """C12 for the HOURLY method: after GHE.size(HOURLY) the temperatures the object reports are those of an HOURLY simulation of the
    returned height (same objects as hourly_root)."""
    from .core import parallel_map  # noqa: PLC0415

    cases = [(2, 2, 2600.0), (1, 2, 2200.0)] if tier() == "quick" else [(2, 2, 2600.0), (1, 2, 2200.0), (1, 2, 3000.0), (2, 2, 5200.0)]
    n = 0
    for c, r in zip(cases, parallel_map(_hourly_root_case, cases)):
        if "error" in r:
            chk.violation(f"C12: GHE.size(HOURLY) on a {c[0]}x{c[1]} field raised {r['error']}", {"case": c})
            continue
        n += 1
        if r["steps"] != 8760 or abs(r["reported"] - r["excess"]) > 1e-6:
            chk.violation(f"C12: after GHE.size(HOURLY) on a {c[0]}x{c[1]} field the object reports {r['steps']} temperatures with excess {r['reported']:.6g} K; "
                          f"an HOURLY simulation of the returned height {r['H']:.4f} m gives {r['excess']:.6g} K", {"case": c, "result": r})
    chk.note("hourly_sizing_reports_checked", n)
    chk.traces += n
