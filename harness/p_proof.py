"""Unbounded part of C05 / C01 for the bisect branch: the TLAPS proof of BisectProof.tla (arbitrary list length) is re-checked by tlapm,
and TLC checks that the bounded model of the code (Search.tla) refines the proved module (SearchRefinesBisect.tla)."""
from __future__ import annotations

import re
import shutil
import subprocess

from .core import SPEC, Check, MachineryError, run_tlc, scratch, tier


def tlapm_check(chk: Check):
    exe = shutil.which("tlapm")
    if exe is None:
        raise MachineryError("tlapm not on PATH")
    d = scratch("tlapm")
    try:
        shutil.copy(SPEC / "BisectProof.tla", d / "BisectProof.tla")
        p = subprocess.run([exe, "--threads", "8", "--cleanfp", "BisectProof.tla"], cwd=d, capture_output=True, text=True, timeout=1800)
        out = p.stdout + p.stderr
    finally:
        shutil.rmtree(d, ignore_errors=True)
    m = re.search(r"All (\d+) obligations? proved", out)
    if not m:
        raise MachineryError("tlapm did not prove BisectProof.tla: " + out[-600:])
    chk.note("tlaps_obligations_proved", int(m.group(1)))
    chk.checker_cmds.append("tlapm --threads 8 --cleanfp spec/BisectProof.tla")
    return int(m.group(1))


def refinement(chk: Check):
    from .p_search import FIXED, mc_module, model_runs  # noqa: PLC0415

    t = tier()
    n = 0
    for mode in ("1D", "2D", "ZD"):
        for label, cfgs, vals, maxiter, rwp in model_runs(mode, t):
            if t == "quick" and label not in ("1D-big-2val", "2D-4val", "ZD-sawtooth-4val"):
                continue
            mod, consts = mc_module(mode, cfgs, vals, maxiter, FIXED, **rwp)
            mod = mod.replace("EXTENDS Search", "EXTENDS SearchRefinesBisect")
            cfg = "INIT Init\nNEXT Next\nCHECK_DEADLOCK FALSE\n" + consts + "PROPERTY BisectRefines\nINVARIANT BisectInv\nINVARIANT BisectAdjacent\n"
            res = run_tlc("MC_Search", cfg, extra_modules={"MC_Search.tla": mod}, want_prints=False, timeout=3000)
            chk.add_tlc(res)
            if res.violated or not res.ok:
                # Search.tla (the model that is replayed into the code) no longer has the structure the proof talks about
                chk.violation(f"Search.tla ({label}) does not refine the TLAPS-proved bisection loop: {res.violated or (res.error or '')[:200]}", {"run": label})
                return n
            n += 1
    chk.note("refinement_runs_Search_implies_BisectProof", n)
    return n


def run_for(chk: Check):
    tlapm_check(chk)
    refinement(chk)
