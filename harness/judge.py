"""Python mirrors of the Search.tla invariants, evaluated on a *record* of one run.

A record is either what the real code did (doubles.run_behaviour) or the model's own behaviour converted by
`record_of_model`. The mirrors are cross-checked against TLC: for every generated behaviour TLC prints the truth
value of each invariant, and `judge(record_of_model(b))` must agree (p_search.crosscheck) - so the mirrors are
bound to the specification and are not an independent opinion.
"""
from __future__ import annotations

import math

from .doubles import HMAX, HMIN, MAXA, MINA, RHO, V_FLOW, Oracle, fkey

TOL_K = 1e-3  # sizing tolerance of the properties (K)


def record_of_model(b: dict) -> dict:
    log = []
    for e in b["log"]:
        d = {"e": e["e"], "f": fkey(e["f"])}
        if "h" in e:
            d["h"] = e["h"] / 1000.0
        for k in ("v", "n", "oc"):
            if k in e:
                d[k] = e[k]
        log.append(d)
    o = b["outcome"]
    out = {"k": o["k"]}
    if o["k"] == "sel":
        out.update(key=o["key"], f=fkey(o["f"]), H=b["live"][1] / 1000.0,
                   sim_at=(fkey(b["lastSim"][0]), b["lastSim"][1] / 1000.0) if b["lastSim"] else None)
    elif o["k"] == "raise":
        out.update(type=o["type"], msg=o["msg"])
    return {"log": log, "out": out, "escape": b["escape"], "branch": b["branch"]}


def _cnt(cfg, mode, f, oracle):
    if mode == "RW":
        if f[0] == "one":
            return 1
        if f[0] == "r":
            return f[1]
        return oracle.memo[(f, "cnt")]
    return cfg["lists"][f[0] - 1][f[1] - 1]


def judge(mode: str, cfg: dict, oracle: Oracle, rec: dict) -> dict[str, bool]:
    """Truth value of each invariant on this record (names as in Search.tla)."""
    out, log = rec["out"], rec["log"]
    sel = out["k"] == "sel"
    # the continue escape exempts a design from C01 / C05 only when the user enabled it; a "largest / smallest available configuration"
    # returned although continue_if_design_unmet is false is judged like any other design
    esc = rec["escape"] and bool(cfg.get("cont"))
    v = {}
    asked = {k: x for k, x in oracle.memo.items() if k[1] in ("min", "max")}
    nozero = all(x != 0 for x in asked.values())
    physical = all(not (x < 0 and asked.get((k[0], "max"), -1) > 0) for k, x in asked.items() if k[1] == "min")
    maxvals = [x for k, x in asked.items() if k[1] == "max" and x <= 0]
    noties = len(set(maxvals)) == len(maxvals)
    f = out.get("f")
    H = out.get("H")
    n_sel = _cnt(cfg, mode, f, oracle) if sel else None

    def ex(ff, h):
        return oracle.excess(ff, h, _cnt(cfg, mode, ff, oracle))

    # C01
    v["FinalExcessNonPositive"] = (not (sel and not esc)) or ex(f, H) <= TOL_K
    # C02
    v["HeightInBounds"] = (not sel) or (HMIN <= H <= HMAX)
    v["CapRespected"] = (not (sel and mode != "RW" and cfg["cap"])) or n_sel <= cfg["cap"]
    # listed finding F16: cap applied as "last index below the cap" on a list whose counts are not monotone (bi-zoned)
    f16 = False
    if not v["CapRespected"] and mode == "ZD":
        lst = cfg["lists"][f[0] - 1]
        allowed = [i for i, c in enumerate(lst) if c < cfg["cap"]]
        f16 = bool(allowed) and (f[1] - 1) < allowed[-1]
    v["CapRespectedK"] = v["CapRespected"] or f16
    v["F16_seen"] = f16
    v["_cap_equal"] = bool(sel and mode != "RW" and cfg["cap"] and n_sel == cfg["cap"])
    nondeg = nozero and (mode == "RW" or ((cfg["cap"] == 0 or cfg["cap"] >= 2) and (not cfg["lists"] or not cfg["lists"][0] or cfg["lists"][0][0] == 1)))
    v["OnlyValueError"] = (not (nondeg and out["k"] == "raise")) or out["type"] == "ValueError"
    allpos = bool(asked) and all(x > 0 for x in asked.values())
    allneg = bool(asked) and all(x < 0 for x in asked.values())
    if mode != "RW" and (allpos or allneg) and nozero:
        if cfg["cont"]:
            ok = sel and ((not allpos) or H == HMAX) and ((not allneg) or H == HMIN)
        else:
            ok = out["k"] == "raise" and out["type"] == "ValueError"
        v["UnmetPolicy"] = ok
    else:
        v["UnmetPolicy"] = True
    br = rec.get("branch")
    if mode == "1D" and br in ("TooSmall", "TooBig") and physical and nozero:
        if cfg["cont"]:
            lst = cfg["lists"][0]
            allowed = [i for i, c in enumerate(lst) if not cfg["cap"] or c < cfg["cap"]]
            if br == "TooSmall":
                ok = sel and f == (1, 1) and H == HMIN
            else:
                ok = sel and f == (1, allowed[-1] + 1) and H == HMAX
        else:
            ok = out["k"] == "raise" and out["type"] == "ValueError" and out["msg"].startswith("Search failed.")
        v["UnmetPolicy1D"] = ok
    else:
        v["UnmetPolicy1D"] = True
    if mode == "RW" and allpos and nozero:
        if cfg["cont"]:
            v["UnmetPolicyRW"] = sel and f == ("s", 0, 0) and ((not physical) or H == HMAX)
        else:
            v["UnmetPolicyRW"] = out["k"] == "raise" and out["type"] == "ValueError" and out["msg"].startswith("Search failed.")
    else:
        v["UnmetPolicyRW"] = True
    # C05
    evals_max = [e for e in log if e["e"] == "eval" and e["h"] == HMAX]
    if sel and mode != "RW" and noties:
        v["NoLessDrillingEvaluated"] = all(n_sel * H <= e["n"] * HMAX + 1e-3 for e in evals_max if e["v"] < 0)
    else:
        v["NoLessDrillingEvaluated"] = True
    # C05: the candidate immediately before the selected one was evaluated and fails at maximum height (1D / 2D lists)
    if sel and not esc and mode in ("1D", "2D") and noties and f[1] > 1:
        pk = oracle.memo.get(((f[0], f[1] - 1) if _cnt(cfg, mode, (f[0], f[1] - 1), oracle) != 1 else (1, 1), "max"))
        sk = oracle.memo.get((f if n_sel != 1 else (1, 1), "max"))
        pred_evaluated = any(e["e"] == "eval" and e["f"] == (f[0], f[1] - 1) and e["h"] == HMAX for e in log)
        v["PredecessorFails"] = bool(sk is not None and sk < 0 and pred_evaluated and pk is not None and pk > 0)
    else:
        v["PredecessorFails"] = True
    # C05: under an excess that is monotone along the list (on what was evaluated) the first feasible candidate is selected
    if sel and not esc and mode == "1D" and noties and f[1] > 1:
        lst = cfg["lists"][0]
        ev = {}
        for (kf, lvl), x in oracle.memo.items():
            if lvl == "max" and isinstance(kf, tuple) and len(kf) == 2 and kf[0] == 1:
                ev[kf[1]] = x
        anti = all(ev[a] > 0 or ev[b] < 0 for a in ev for b in ev if a < b)
        allowed = [i + 1 for i, c in enumerate(lst) if not cfg["cap"] or c < cfg["cap"]]
        v["FirstFeasibleIfMonotone"] = (not anti) or all(f[1] <= i for i in allowed if i in ev and ev[i] < 0)
    else:
        v["FirstFeasibleIfMonotone"] = True
    v["RootUnlessClamped"] = (not sel) or (H in (HMIN, HMAX)) or abs(ex(f, H)) <= TOL_K
    # C12
    sa = out.get("sim_at")
    v["ReportedIsLastSim"] = (not sel) or (sa is not None and sa[0] == f and abs(sa[1] - H) <= 1e-3)
    # C20: what retrieve_flow hands on, per evaluated / initialised field
    ok = True
    for e in list(log) + [dict(c, e="init") for c in rec.get("created", [])]:     # evaluated / initialised fields and every constructed field object
        if e["e"] in ("eval", "init") and "vsys" in e:
            n = e["n"]
            if cfg["flow"] == "BOREHOLE":
                vs, m = V_FLOW * n, V_FLOW * RHO / 1000.0
            else:
                vs, m = V_FLOW, V_FLOW * RHO / (1000.0 * n)
            if not (math.isclose(vs, e["vsys"], rel_tol=1e-12) and math.isclose(m, e["m"], rel_tol=1e-12)):
                ok = False
    v["FlowSplit"] = ok
    # RowWise: every field generation of one search is given the same rotation window / step / outlines (the user's), whatever
    # stage of the search asks for it (bounds, bisection midpoints, exhaustive tail)
    gc = rec.get("gen_calls", [])
    v["SameGeneratorArguments"] = len(set(gc)) <= 1 and all(c[1] is not None and c[2] is not None for c in gc)
    return v


def judge_rows(rows) -> list:
    """C12 LogRowConsistent on real searchTracker rows: excess = max(maxEFT - upper, lower - minEFT)."""
    bad = []
    for r in rows:
        want = max(r[2] - MAXA, MINA - r[3])
        if abs(r[1] - want) > 1e-12 * max(1.0, abs(want)):
            bad.append(r)
    return bad
