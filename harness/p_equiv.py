"""C15: EquivPipe.tla (thin model) + recorded to_single() conversions validated in batch by TLC (EquivTrace.tla)."""
from __future__ import annotations

import contextlib
import io
import json
import math
import random
import re
import warnings

from .core import BUILD, Check, MachineryError, import_repo, parallel_map, require_tlc_ok, run_tlc, scratch, tier


def root_in_bracket(eq, rc, rp):
    """Does the conductivity that reproduces rc + rp lie inside the tool's documented bracket [k0 / 100, 10 k0] (k0 = preliminary
    equal-wall-volume conductivity)? Computed from the equivalent tube's radii and its own film resistance, not from the solver."""
    lnr = math.log(eq.pipe.r_out / eq.pipe.r_in)
    k0 = lnr / (2.0 * math.pi * 2 * rp)
    need = (rc + rp) - eq.R_f
    if need <= 0:
        return False
    k_req = lnr / (2.0 * math.pi * need)
    return bool(k0 / 100.0 <= k_req <= 10.0 * k0)


def ppm(a, b):
    if b == 0:
        return 0 if a == 0 else 2_000_000_000
    v = (a - b) / abs(b) * 1e6
    return int(max(-2e9, min(2e9, round(v))))


def _convert(seed):
    """One batch of conversions -> list of traces (each a list of events)."""
    import_repo()
    import ghedesigner.borehole_heat_exchangers as bhx  # noqa: PLC0415
    from ghedesigner.borehole import GHEBorehole  # noqa: PLC0415
    from ghedesigner.enums import BHPipeType  # noqa: PLC0415
    from ghedesigner.media import GHEFluid, Grout, Pipe, Soil  # noqa: PLC0415

    rnd = random.Random(seed)
    traces = []
    calls = []
    real = bhx.solve_root

    def rec(x, objective_function, lower=None, upper=None, **kw):
        lo = x / 100.0 if lower is None else lower
        hi = x * 10.0 if upper is None else upper
        flo, fhi = objective_function(lo), objective_function(hi)
        r = real(x, objective_function, lower=lower, upper=upper, **kw)
        if flo == 0 or fhi == 0:
            oc = "ZeroDiv"
        elif (flo > 0) != (fhi > 0):
            oc = "Bracketed"
        else:
            oc = "ClampLow" if flo < 0 else "ClampHigh"
        calls.append({"oc": oc, "x": r, "lo": lo, "hi": hi})
        return r

    bhx.solve_root = rec
    try:
        for _ in range(24):
            kind = rnd.choice(["DOUBLEUTUBEPARALLEL", "DOUBLEUTUBESERIES", "COAXIAL", "COAXIAL"])
            fluid = GHEFluid(rnd.choice(["water", "propyleneglycol", "ethyleneglycol"]), 0.0, 20.0) if rnd.random() < 0.5 else GHEFluid("propyleneglycol", rnd.choice([10.0, 20.0, 30.0]), 20.0)
            if fluid.fluid_type.name == "WATER" or True:
                pass
            grout = Grout(round(rnd.uniform(0.6, 2.6), 3), 3901000.0)
            soil = Soil(round(rnd.uniform(1.0, 4.0), 3), 2343493.0, 18.3)
            rb = round(rnd.uniform(0.05, 0.12), 4) if rnd.random() < 0.4 else round(rnd.uniform(0.06, 0.085), 4)
            m_flow = rnd.choice([0.05, 0.1, 0.2, 0.3, 0.5, 0.8])
            desc = {"kind": kind, "r_b": rb, "k_g": grout.k, "k_s": soil.k, "m_flow": m_flow}
            thick = rnd.random() < 0.25        # heavy-wall pipes: the fluid takes less than a quarter of the tube cross-section
            desc["thick"] = thick
            if kind == "COAXIAL":
                r_oo = round(rnd.uniform(0.03, rb - 0.008), 4)
                t_o = round(rnd.uniform(0.003, 0.007), 4)
                r_oi = r_oo - t_o
                r_io = round(rnd.uniform(0.012, r_oi - 0.006), 4)
                t_i = round(rnd.uniform(0.002, 0.004), 4) if not thick else round(rnd.uniform(0.5, 0.8) * r_io, 4)
                r_ii = r_io - t_i
                if r_ii <= 0.004:
                    continue
                pipe = Pipe((0, 0), [r_ii, r_io], [r_oi, r_oo], 0, 1e-6, [round(rnd.uniform(0.3, 0.5), 3), round(rnd.uniform(0.3, 0.5), 3)], 1542000.0)
                bt = BHPipeType.COAXIAL
                desc.update(r_inner=[r_ii, r_io], r_outer=[r_oi, r_oo])
                vf0 = math.pi * (r_ii**2 + r_oi**2 - r_io**2)
                vp0 = math.pi * (r_io**2 - r_ii**2 + r_oo**2 - r_oi**2)
            else:
                r_out = round(rnd.uniform(0.012, 0.022), 4)
                r_in = r_out - round(rnd.uniform(0.002, 0.004), 4) if not thick else round(rnd.uniform(0.3, 0.48) * r_out, 4)
                s_min = 0.83 * r_out
                s_max = min(2 * (rb - 2 * r_out) - 0.002, 0.045)
                if s_max <= s_min:
                    continue
                s = round(rnd.uniform(s_min, s_max), 4)
                pipe = Pipe(Pipe.place_pipes(s, r_out, 2), r_in, r_out, s, 1e-6, round(rnd.uniform(0.3, 0.5), 3), 1542000.0)
                bt = BHPipeType.DOUBLEUTUBEPARALLEL if kind == "DOUBLEUTUBEPARALLEL" else BHPipeType.DOUBLEUTUBESERIES
                desc.update(r_in=r_in, r_out=r_out, s=s)
                vf0 = 4 * math.pi * r_in**2
                vp0 = 4 * math.pi * (r_out**2 - r_in**2)
            bore = GHEBorehole(100.0, 2.0, rb, 0.0, 0.0)
            try:
                with warnings.catch_warnings(), contextlib.redirect_stdout(io.StringIO()):
                    warnings.simplefilter("ignore")
                    orig = bhx.get_bhe_object(bt, m_flow, fluid, bore, pipe, grout, soil)
                    del calls[:]
                    if kind == "COAXIAL":
                        _, _, rc, rp = orig.concentric_tube_volumes()
                        k_outer = pipe.k[1]            # Pipe.k = [inner pipe, outer pipe]
                        target_ref = 1.0 / (orig.h_f_a_in * 2.0 * math.pi * r_oi) + math.log(r_oo / r_oi) / (2.0 * math.pi * k_outer)
                    else:
                        _, _, rc, rp = orig.u_tube_volumes()
                        target_ref = 1.0 / (orig.h_f * 4 * math.pi * (2.0 * r_in) ** 2) + math.log(r_out / r_in) / (4 * 2.0 * math.pi * pipe.k)
                    eq = orig.to_single()
                    rb0 = orig.calc_effective_borehole_resistance()
                    rb1 = eq.calc_effective_borehole_resistance()
                    eq.calc_fluid_pipe_resistance()
                    rfp1 = eq.R_fp
            except Exception as ex:  # noqa: BLE001
                traces.append({"desc": desc, "events": [{"e": "Raised", "type": type(ex).__name__, "msg": str(ex)[:80]}, {"e": "End"}]})
                continue
            if len(calls) != 2:
                traces.append({"desc": desc, "events": [{"e": "Raised", "type": "Machinery", "msg": f"{len(calls)} solve_root calls"}, {"e": "End"}]})
                continue
            vf1 = 2 * math.pi * eq.pipe.r_in**2
            vp1 = 2 * math.pi * (eq.pipe.r_out**2 - eq.pipe.r_in**2)
            ev = [
                {"e": "Volumes", "dvf_ppm": ppm(vf1, vf0), "dvp_ppm": ppm(vp1, vp0), "target_ppm": ppm(rc + rp, target_ref)},
                {"e": "Radii"},
                {"e": "SolvePipeK", "oc": calls[0]["oc"], "dev_ppm": ppm(rfp1, rc + rp), "kind": kind, "root_in_bracket": root_in_bracket(eq, rc, rp)},
                {"e": "SolveGroutK", "oc": calls[1]["oc"], "rb_dev_ppm": ppm(rb1, rb0)},
                {"e": "End"},
            ]
            traces.append({"desc": desc, "events": ev})
            if rnd.random() < 0.35:
                # the SAME exchanger object converted again after its flow rate was changed (and its own resistances refreshed):
                # the conversion must describe the exchanger as it is now
                fac = rnd.choice([0.5, 2.0])
                desc2 = dict(desc, reconverted_after_flow_factor=fac)
                try:
                    with warnings.catch_warnings(), contextlib.redirect_stdout(io.StringIO()):
                        warnings.simplefilter("ignore")
                        orig.m_flow_borehole = orig.m_flow_borehole * fac
                        if kind == "COAXIAL":
                            orig.calc_fluid_pipe_resistance()
                            orig.update_thermal_resistances(orig.R_ff, orig.R_fp)
                        else:
                            orig.m_flow_pipe = orig.m_flow_pipe * fac
                            orig.update_thermal_resistances(orig.calc_fluid_pipe_resistance())
                        del calls[:]
                        if kind == "COAXIAL":
                            _, _, rc, rp = orig.concentric_tube_volumes()
                            target_ref = 1.0 / (orig.h_f_a_in * 2.0 * math.pi * r_oi) + math.log(r_oo / r_oi) / (2.0 * math.pi * pipe.k[1])
                        else:
                            _, _, rc, rp = orig.u_tube_volumes()
                            target_ref = 1.0 / (orig.h_f * 4 * math.pi * (2.0 * r_in) ** 2) + math.log(r_out / r_in) / (4 * 2.0 * math.pi * pipe.k)
                        eq = orig.to_single()
                        rb0 = orig.calc_effective_borehole_resistance()
                        rb1 = eq.calc_effective_borehole_resistance()
                        eq.calc_fluid_pipe_resistance()
                        rfp1 = eq.R_fp
                        same_flow = abs(eq.m_flow_borehole - orig.m_flow_borehole) <= 1e-12 * orig.m_flow_borehole
                except Exception as ex:  # noqa: BLE001
                    traces.append({"desc": desc2, "events": [{"e": "Raised", "type": type(ex).__name__, "msg": str(ex)[:80]}, {"e": "End"}]})
                    continue
                vf1 = 2 * math.pi * eq.pipe.r_in**2
                vp1 = 2 * math.pi * (eq.pipe.r_out**2 - eq.pipe.r_in**2)
                oc1 = calls[0]["oc"] if len(calls) == 2 else "NotRun"
                oc2 = calls[1]["oc"] if len(calls) == 2 else "NotRun"
                traces.append({"desc": desc2, "events": [
                    {"e": "Volumes", "dvf_ppm": ppm(vf1, vf0), "dvp_ppm": ppm(vp1, vp0), "target_ppm": ppm(rc + rp, target_ref) if same_flow else 999999},
                    {"e": "Radii"},
                    {"e": "SolvePipeK", "oc": oc1, "dev_ppm": ppm(rfp1, rc + rp), "kind": kind, "root_in_bracket": root_in_bracket(eq, rc, rp)},
                    {"e": "SolveGroutK", "oc": oc2, "rb_dev_ppm": ppm(rb1, rb0)},
                    {"e": "End"}]})
        # a single U-tube converts to itself
        pipe = Pipe(Pipe.place_pipes(0.01856, 0.02108, 1), 0.01702, 0.02108, 0.01856, 1e-6, 0.4, 1542000.0)
        su = bhx.get_bhe_object(BHPipeType.SINGLEUTUBE, 0.3, GHEFluid("water", 0.0, 20.0), GHEBorehole(100.0, 2.0, 0.075, 0.0, 0.0), pipe, Grout(1.0, 3901000.0), Soil(2.0, 2343493.0, 18.3))
        same = su.to_single() is su
    finally:
        bhx.solve_root = real
    return traces, same


def run() -> int:
    chk = Check("C15", level="other")
    t = tier()
    chk.explanation = ("Thin model: EquivPipe.tla fixes the four conversion steps and the solve_root outcome semantics (TLC exhausts the 16 outcome pairs); the numerical content is sampled: "
                       "to_single() runs on random double-U / coaxial geometries with utilities.solve_root wrapped, each run becomes a trace of events with measured deviations in ppm, and TLC "
                       "validates all traces in one batch against the model (EquivTrace.tla), giving one verdict per trace. Clamped solves are the listed finding F11.")
    chk.rule = "random geometries that fit in the borehole (seeded); distinct = (kind, rounded geometry)"
    chk.trusted = ["pygfunction multipole evaluation of R_b* for both exchangers", "the tool's own definition of the convective + pipe resistance target (u_tube_volumes / concentric_tube_volumes)"]
    cfg = "INIT EInit\nNEXT ENext\nCHECK_DEADLOCK FALSE\nINVARIANT PreservesBulk\nINVARIANT MatchesIffBracketed\n"
    res = run_tlc("EquivPipe", cfg, want_prints=False, coverage=True)
    chk.add_tlc(res)
    if res.violated:
        chk.violation(f"EquivPipe.tla invariant {res.violated} violated", {})
    else:
        require_tlc_ok(res, "EquivPipe")
    seeds = [chk.seed * 53 + i for i in range(16 if t == "quick" else 420)]
    traces = []
    for tr, same in parallel_map(_convert, seeds):
        traces += tr
        if not same:
            chk.violation("C15: a single U-tube does not convert to itself", {})
    if len(traces) < 100:
        raise MachineryError(f"only {len(traces)} conversions recorded")
    d = scratch("equivtrace")
    try:
        tf = d / "traces.json"
        tf.write_text(json.dumps([tr["events"] for tr in traces]))
        cfg = "INIT TInit\nNEXT TNext\nCHECK_DEADLOCK FALSE\n"
        res = run_tlc("EquivTrace", cfg, workers=1, want_prints=False, timeout=3000, env={"TRACE_FILE": str(tf)})
        require_tlc_ok(res, "EquivTrace")
        chk.add_tlc(res)
        verdicts = {}
        for m in re.finditer(r'<<\s*"VERDICT",\s*(\d+),\s*"([^"]*)"\s*>>', res.stdout):
            verdicts[int(m.group(1))] = m.group(2)
    finally:
        import shutil  # noqa: PLC0415

        shutil.rmtree(d, ignore_errors=True)
    if len(verdicts) != len(traces):
        raise MachineryError(f"{len(verdicts)} verdicts for {len(traces)} traces (trace validation did not consume every trace)")
    n_ok = n_known = 0
    kinds = {}
    for i, tr in enumerate(traces, start=1):
        v = verdicts[i]
        chk.nontrivial.add(json.dumps(tr["desc"], sort_keys=True))
        kinds[tr["desc"]["kind"]] = kinds.get(tr["desc"]["kind"], 0) + 1
        if v == "ok":
            n_ok += 1
        elif v == "known:F11":
            n_known += 1
            chk.violation("F11", None, known_key="F11")
        else:
            chk.violation(f"C15 conversion {tr['desc']}: {v}", {"desc": tr["desc"], "events": tr["events"], "verdict": v})
    chk.traces += len(traces)
    chk.evaluations += len(traces)
    chk.note("conversions", len(traces))
    chk.note("verdict_ok", n_ok)
    chk.note("verdict_known_F11", n_known)
    chk.note("by_kind", kinds)
    chk.sample({"geometry": traces[0]["desc"], "events": traces[0]["events"], "verdict": verdicts[1]})
    n_pipe_judged = sum(1 for tr in traces if len(tr["events"]) > 2 and tr["events"][2].get("oc") == "Bracketed")
    chk.note("pipe_conductivity_solves_bracketed_and_judged", n_pipe_judged)
    chk.note("grout_conductivity_solves_bracketed_and_judged", sum(1 for tr in traces if len(tr["events"]) > 3 and tr["events"][3].get("oc") == "Bracketed"))
    if n_pipe_judged < 20:
        raise MachineryError("vacuity: fewer than 20 bracketed pipe-conductivity solves judged")
    return chk.finish()


def selfcheck_binding():
    """Corrupt one recorded field / drop one event and expect the trace validator to reject (used by ./check selftest)."""
    good = [{"e": "Volumes", "dvf_ppm": 0, "dvp_ppm": 0, "target_ppm": 0}, {"e": "Radii"}, {"e": "SolvePipeK", "oc": "Bracketed", "dev_ppm": 3, "kind": "COAXIAL", "root_in_bracket": True},
            {"e": "SolveGroutK", "oc": "Bracketed", "rb_dev_ppm": 40}, {"e": "End"}]
    bad1 = json.loads(json.dumps(good))
    bad1[3]["rb_dev_ppm"] = 4000
    bad2 = [e for e in good if e["e"] != "SolvePipeK"]
    d = scratch("equivself")
    try:
        tf = d / "traces.json"
        tf.write_text(json.dumps([good, bad1, bad2]))
        res = run_tlc("EquivTrace", "INIT TInit\nNEXT TNext\nCHECK_DEADLOCK FALSE\n", workers=1, want_prints=False, env={"TRACE_FILE": str(tf)})
        v = {int(m.group(1)): m.group(2) for m in re.finditer(r'<<\s*"VERDICT",\s*(\d+),\s*"([^"]*)"\s*>>', res.stdout)}
    finally:
        import shutil  # noqa: PLC0415

        shutil.rmtree(d, ignore_errors=True)
    return v.get(1) == "ok" and v.get(2, "ok") != "ok" and v.get(3, "ok") != "ok", v
