"""B1: replay of TLC behaviours of Search.tla into the REAL search classes.

The control code under test is the unmodified repository code: Bisection1D / Bisection2D / BisectionZD /
RowWiseModifiedBisectionSearch (constructors, retrieve_flow, initialize_ghe, calculate_excess, search,
search_successive), GHE.cost, GHE.size, utilities.solve_root (+ scipy brentq), GHEManager.find_design.
Only the physics kernel is replaced: `search_routines.GHE` becomes a subclass of the real GHE whose
constructor does no physics and whose `simulate` answers from the oracle of the TLC behaviour, and
`calc_g_func_for_multiple_lengths` / the RowWise field generators become recorders.
"""
from __future__ import annotations

import contextlib
import io
import math
import zlib
from types import SimpleNamespace

from .core import MachineryError, import_repo

HMIN, HMAX = 60.0, 120.0
MAXA, MINA = 35.0, 5.0
V_FLOW = 0.25
RHO = 1040.0
RW_S0 = 8.0
RW_UNIT = 1.0
RW_CHANGE = 1.0 / 16.0


class Divergence(Exception):
    """The code asked the oracle something the model behaviour never evaluated."""


def fkey(f):
    return tuple(f) if isinstance(f, list) else f


class Oracle:
    """The physics of one TLC behaviour. Questions the behaviour never asked (the code left the model) get a
    deterministic default so that the run can still be completed and judged; `extended` counts them."""

    def __init__(self, memo_pairs, lenient=True, ext=None, formula=None):
        self.formula = formula          # large domains: (need, lists) - the answer is computed when asked, so that memo holds what WAS asked
        self.memo = {}
        self.lenient = lenient
        self.extended = 0
        self.ext = dict(ext or {})      # preset answers for questions outside the behaviour
        self.new_keys = []              # questions answered by default in this run: (key, options)
        for k, v in memo_pairs:
            self.memo[(fkey(k[0]), k[1])] = v

    def excess(self, fid, h, n=None):
        pk = fid
        if n == 1:
            pk = ("one",) if MODE == "RW" else (1, 1)
        return self._excess(pk, fid, h)

    def _excess(self, fid, cid, h):
        if h == HMIN:
            return self._get(fid, "min")
        if h == HMAX:
            return self._get(fid, "max")
        lo, hi = self._get(fid, "min"), self._get(fid, "max")
        if (lo > 0) == (hi > 0):
            # no sign change: any monotone interpolation will do
            return lo + (hi - lo) * (h - HMIN) / (HMAX - HMIN)
        r = (self._get(fid, "root") + code(cid)) / 1000.0
        if h <= r:
            return lo * (r - h) / (r - HMIN)
        return hi * (h - r) / (HMAX - r)

    def _get(self, fid, lvl):
        try:
            return self.memo[(fid, lvl)]
        except KeyError:
            if self.formula is not None:
                need, lists = self.formula
                j, i = fid
                c = lists[j - 1][i - 1]
                v = (need - c) * 1e-3 + j * 1e-6 + i * 1e-9          # distinct values, sign decided by the count alone
                x = {"max": v, "min": v + 60.0, "root": 90000}[lvl]
                self.memo[(fid, lvl)] = x
                return x
            if not self.lenient:
                raise Divergence(f"oracle has no answer for {fid} at {lvl}") from None
            self.extended += 1
            if lvl == "cnt":
                opts = (2, 3)
            elif lvl == "root":
                opts = (115000, 77000)
            elif lvl == "max":
                used = {x for (kk, ll), x in self.memo.items() if ll == "max"}
                opts = tuple(x for x in (-7, 7, -9, 9, -11, 11) if x not in used)[:2] or (-13, 13)
            else:
                opts = (1, -1)
                if (fid, "max") in self.memo and self.memo[(fid, "max")] > 0:
                    opts = (1,)     # keep the extension physical (more height never hurts)
            if (fid, lvl) in self.ext:
                v = self.ext[(fid, lvl)]
            else:
                v = opts[0]
                self.new_keys.append(((fid, lvl), opts))
            self.memo[(fid, lvl)] = v
            return v

    def count(self, fid):
        return self._get(fid, "cnt")


def code(f):
    if MODE != "RW":
        return f[0] * 8 + f[1]
    if f[0] == "one":
        return 0
    if f[0] == "r":
        return f[1]
    return f[1] * 16 + f[2] + 1


class Recorder:
    def __init__(self):
        self.log = []
        self.in_eval = 0
        self.last_flow = None
        self.last_sim = None
        self.solve = None
        self.created = []          # every field object that was constructed (including the one a search class builds in its constructor)
        self.gen_calls = []        # RowWise: what every call of the field generator was given besides the spacing


REC: Recorder | None = None
ORA: Oracle | None = None
MODE = "1D"


def list_coords(j, i, n):
    return [(float(j * 1000 + i), float(k)) for k in range(n)]


class LazyFields:
    """A candidate list whose coordinate sets are built when asked for (large domains: tens of thousands of candidates)."""

    def __init__(self, j, counts):
        self.j, self.counts = j, counts

    def __len__(self):
        return len(self.counts)

    def __iter__(self):
        return (self[i] for i in range(len(self.counts)))

    def __getitem__(self, i):
        if isinstance(i, slice):
            return [self[k] for k in range(*i.indices(len(self.counts)))]
        if i < 0:
            i += len(self.counts)
        if not 0 <= i < len(self.counts):
            raise IndexError(i)
        return list_coords(self.j, i + 1, self.counts[i])


def rw_coords(a, k, n):
    x0 = float(1 + a * 64 + k)
    return [[x0, float(t)] for t in range(n)]


def ident(coords):
    n = len(coords)
    x0 = coords[0][0]
    if MODE == "RW":
        if n == 1 and x0 == 0:
            return ("one",)
        t = int(round(x0)) - 1
        a, k = divmod(t, 64)
        f = ("s", a, k)
        full = ORA.count(f)
        if n == full:
            return f
        return ("r", n, 0)
    t = int(round(x0))
    return (t // 1000, t % 1000)


def install():
    """Patch the search module of the repo under test. Returns the patched modules."""
    import_repo()
    import ghedesigner.ground_heat_exchangers as ghx  # noqa: PLC0415
    import ghedesigner.search_routines as sr  # noqa: PLC0415
    from ghedesigner.enums import TimestepType  # noqa: PLC0415

    if getattr(sr, "_verif_doubles", False):
        return sr, ghx
    RealGHE = ghx.GHE  # noqa: N806
    real_solve_root = ghx.solve_root

    def solve_root_rec(x, objective_function, lower=None, upper=None, **kw):
        evals = []

        def obj(h):
            v = objective_function(h)
            evals.append((h, v))
            return v

        r = real_solve_root(x, obj, lower=lower, upper=upper, **kw)
        lo, hi = evals[0][1], evals[1][1]
        if (lo > 0) != (hi > 0):
            oc = "Bracketed"
        elif lo < 0:
            oc = "ClampLow"
        else:
            oc = "ClampHigh"
        REC.solve = {"oc": oc, "x": r, "lo": lo, "hi": hi, "n": len(evals), "last": evals[-1][0]}
        return r

    ghx.solve_root = solve_root_rec

    class DoubleGHE(RealGHE):
        def __init__(  # noqa: PLR0913
            self, v_flow_system, b_spacing, bhe_type, fluid, borehole, pipe, grout, soil, g_function, sim_params,
            hourly_extraction_ground_loads, field_type="N/A", field_specifier="N/A", load_years=None,
        ):
            self.fieldType = field_type
            self.fieldSpecifier = field_specifier
            self.V_flow_system = v_flow_system
            self.B_spacing = b_spacing
            self.nbh = len(g_function.bore_locations)
            self.bhe_type = bhe_type
            # like the real GHE: the exchanger object carries the per-borehole mass flow derived from the system flow and the field's count
            self.bhe = SimpleNamespace(b=borehole, fluid=fluid, pipe=pipe, grout=grout, soil=soil,
                                       m_flow_borehole=(v_flow_system / len(g_function.bore_locations)) / 1000.0 * fluid.rho)
            self.gFunction = g_function
            self.sim_params = sim_params
            self.hourly_extraction_ground_loads = hourly_extraction_ground_loads
            self.times = []
            self.loading = None
            self.hp_eft = []
            self.dTb = []
            self.fid = ident(g_function.bore_locations)
            self.sim_at = None
            REC.last_flow = (v_flow_system, g_function.m_flow)
            REC.created.append({"n": self.nbh, "vsys": v_flow_system, "m": g_function.m_flow})

        def simulate(self, method):
            h = self.bhe.b.H
            e = ORA.excess(self.fid, h, self.nbh)
            # which limit binds alternates with the borehole count, so both arms of cost() are exercised
            if self.nbh % 2 == 0:
                mx, mn = MAXA + e, MINA + 100.0
            else:
                mx, mn = MAXA - 100.0, MINA - e
            self.hp_eft = [mx, mn]
            self.sim_at = (self.fid, h)
            REC.last_sim = (self.fid, h)
            return mx, mn

        def compute_g_functions(self):
            REC.log.append({"e": "cg", "f": self.fid})
            self.gFunction = SimpleNamespace(bore_locations=self.gFunction.bore_locations, m_flow=self.gFunction.m_flow, fam=3)

        def size(self, method):
            REC.solve = None
            try:
                super().size(method)
            finally:
                s = REC.solve
                if s is not None:
                    REC.log.append({"e": "size", "f": self.fid, "oc": s["oc"], "h": self.bhe.b.H, "lo": s["lo"],
                                    "hi": s["hi"], "nev": s["n"], "last": s["last"]})
                else:
                    REC.log.append({"e": "size", "f": self.fid, "oc": "ZeroDiv", "h": self.bhe.b.H})

    def fake_gfunc(b, h_values, r_b, depth, m_flow_borehole, bhe_type, log_time, coordinates, *a, **kw):
        return SimpleNamespace(bore_locations=coordinates, m_flow=m_flow_borehole, fam=len(h_values))

    def wrap_class(cls):
        real_ce = cls.calculate_excess
        real_init = cls.initialize_ghe

        def calculate_excess(self, coordinates, h, field_specifier="N/A"):
            REC.in_eval += 1
            try:
                v = real_ce(self, coordinates, h, field_specifier=field_specifier)
            finally:
                REC.in_eval -= 1
            REC.log.append({"e": "eval", "f": ident(coordinates), "h": h, "v": v, "n": len(coordinates),
                            "vsys": REC.last_flow[0], "m": REC.last_flow[1]})
            return v

        def initialize_ghe(self, coordinates, h, field_specifier="N/A"):
            real_init(self, coordinates, h, field_specifier=field_specifier)
            if REC.in_eval == 0:
                REC.log.append({"e": "init", "f": ident(coordinates), "h": h, "n": len(coordinates),
                                "vsys": REC.last_flow[0], "m": REC.last_flow[1]})

        cls.calculate_excess = calculate_excess
        cls.initialize_ghe = initialize_ghe

    for name in ("Bisection1D", "RowWiseModifiedBisectionSearch"):
        if not hasattr(sr, name):
            raise MachineryError(f"binding surface: search_routines.{name} not found")
        wrap_class(getattr(sr, name))
    for name in ("GHE", "calc_g_func_for_multiple_lengths", "field_optimization_fr", "field_optimization_wp_space_fr", "gen_shape"):
        if not hasattr(sr, name):
            raise MachineryError(f"binding surface: search_routines.{name} not found")
    sr.GHE = DoubleGHE
    sr.calc_g_func_for_multiple_lengths = fake_gfunc

    def fake_field_fr(space_start, rotate_step, prop_bound, ng_zones=None, rotate_start=None, rotate_stop=None, **kw):
        REC.gen_calls.append((rotate_step, rotate_start, rotate_stop, id(prop_bound), None if ng_zones is None else id(ng_zones)))
        t = (space_start - RW_S0) / RW_CHANGE
        ti = int(round(t))
        if abs(t - ti) > 1e-9:
            raise Divergence(f"spacing {space_start!r} is not on the model grid")
        a, k = divmod(ti, 16)
        f = ("s", a, k)
        n = ORA.count(f)
        return [rw_coords(a, k, n), f"S_{a}_{k}"]

    def fake_field_wp(p_space, space_start, rotate_step, prop_bound, ng_zones=None, rotate_start=None, rotate_stop=None):
        return fake_field_fr(space_start, rotate_step, prop_bound, ng_zones=ng_zones, rotate_start=rotate_start, rotate_stop=rotate_stop)

    sr.field_optimization_fr = fake_field_fr
    sr.field_optimization_wp_space_fr = fake_field_wp
    sr.gen_shape = lambda pb, ng=None: [None, None]
    sr._verif_doubles = True
    sr._verif_TimestepType = TimestepType
    return sr, ghx


def run_behaviour(beh: dict, max_iter: int | None = None, ext=None):
    """Run the real code for one TLC behaviour. Returns (record, mismatches)."""
    global REC, ORA, MODE  # noqa: PLW0603
    sr, ghx = install()
    from ghedesigner.borehole import GHEBorehole  # noqa: PLC0415
    from ghedesigner.enums import BHPipeType, FlowConfigType, TimestepType  # noqa: PLC0415
    from ghedesigner.manager import GHEManager  # noqa: PLC0415
    from ghedesigner.simulation import SimulationParameters  # noqa: PLC0415

    MODE = beh["mode"]
    cfg = beh["cfg"]
    ORA = Oracle(beh["memo"], ext=ext, formula=(beh["need"], beh["cfg"]["lists"]) if beh.get("lazy") else None)
    REC = Recorder()
    cap = cfg["cap"] or None
    sp = SimulationParameters(1, 12, MAXA, MINA, HMAX, HMIN, max_boreholes=cap, continue_if_design_unmet=cfg["cont"])
    fluid = SimpleNamespace(rho=RHO)
    bore = GHEBorehole(100.0, 2.0, 0.075, 0.0, 0.0)
    flow_type = FlowConfigType.BOREHOLE if cfg["flow"] == "BOREHOLE" else FlowConfigType.SYSTEM
    lists = cfg["lists"]
    # the progress-printing option of the search classes has no place in the model (it must not matter): it is switched on for
    # about half of the behaviours, chosen by the configuration alone
    disp = (sum(len(l) for l in lists) + (cfg["cap"] or 0) + (1 if cfg["cont"] else 0)) % 2 == 1
    common = dict(v_flow=V_FLOW, borehole=bore, bhe_type=BHPipeType.SINGLEUTUBE, fluid=fluid, pipe=None, grout=None,
                  soil=None, sim_params=sp, hourly_extraction_ground_loads=[0.0], method=TimestepType.HYBRID,
                  flow_type=flow_type, disp=disp)

    def build():
        if MODE == "1D":
            dom = [list_coords(1, i + 1, n) for i, n in enumerate(lists[0])]
            desc = [f"d{i}" for i in range(len(dom))]
            kw = dict(common)
            if max_iter is not None:
                kw["max_iter"] = max_iter
            return sr.Bisection1D(dom, desc, **kw)
        if MODE in ("2D", "ZD"):
            if beh.get("lazy"):
                nested = [LazyFields(j + 1, lst) for j, lst in enumerate(lists)]
            else:
                nested = [[list_coords(j + 1, i + 1, n) for i, n in enumerate(lst)] for j, lst in enumerate(lists)]
            desc = [[f"d{j}_{i}" for i in range(len(lst))] for j, lst in enumerate(lists)]
            cls = sr.Bisection2D if MODE == "2D" else sr.BisectionZD
            kw = dict(common)
            if max_iter is not None:
                kw["max_iter"] = max_iter
            return cls(nested, desc, **kw)
        gc = SimpleNamespace(min_spacing=RW_S0, max_spacing=RW_S0 + beh["rwgrid"] * RW_UNIT, spacing_step=10 * RW_CHANGE,
                             rotate_step=5.0, property_boundary=[[0, 0]], no_go_boundaries=[], min_rotation=-0.35,
                             max_rotation=1.0, perimeter_spacing_ratio=None)
        kw = dict(common)
        kw["geometric_constraints"] = gc
        if max_iter is not None:
            kw["max_iter"] = max_iter
        return sr.RowWiseModifiedBisectionSearch(**kw)

    mgr = GHEManager()
    mgr._fluid = mgr._grout = mgr._soil = mgr._pipe = mgr._borehole = mgr._simulation_parameters = True
    mgr._ground_loads = [1.0]
    mgr._geometric_constraints = True
    mgr._design = SimpleNamespace(find_design=build)
    out = {"k": "none"}
    buf = io.StringIO()
    with contextlib.redirect_stdout(buf):
        try:
            mgr.find_design()
            s = mgr._search
            key = getattr(s, "selection_key", None)
            out = {"k": "sel", "key": key, "f": s.ghe.fid, "H": s.ghe.bhe.b.H, "sim_at": s.ghe.sim_at,
                   "hp": list(s.ghe.hp_eft)}
        except Divergence as d:
            out = {"k": "diverge", "msg": str(d)}
        except Exception as ex:  # noqa: BLE001
            out = {"k": "raise", "type": type(ex).__name__, "msg": str(ex)}
    text = buf.getvalue()
    branch = None
    if MODE == "1D":
        if "fewer or shorter boreholes" in text:
            branch = "TooSmall"
        elif "more or deeper boreholes" in text:
            branch = "TooBig"
    rows = []
    s = getattr(mgr, "_search", None)
    if s is not None:
        rows = [r for r in getattr(s, "searchTracker", []) if len(r) == 4]
    return {"log": REC.log, "created": REC.created, "gen_calls": REC.gen_calls, "out": out, "escape": "available configuration selected." in text, "branch": branch,
            "rows": rows, "extended": ORA.extended, "oracle": ORA}


def compare(beh: dict, rec: dict) -> list[str]:
    """Event-by-event and outcome comparison; returns list of mismatch descriptions (empty = conforms)."""
    mm = []
    mlog, clog = beh["log"], rec["log"]
    out, mo = rec["out"], beh["outcome"]
    if out["k"] == "diverge":
        return [f"code left the model behaviour: {out['msg']}"]
    if rec.get("extended"):
        mm.append(f"code asked the oracle {rec['extended']} question(s) the model behaviour never asked")
    if rec.get("escape") is not None and rec["escape"] != beh["escape"]:
        mm.append(f"continue-escape used: model {beh['escape']} vs code {rec['escape']}")
    n = min(len(mlog), len(clog))
    for i in range(n):
        a, b = mlog[i], clog[i]
        if a["e"] != b["e"] or fkey(a["f"]) != b["f"]:
            mm.append(f"event {i}: model {a['e']} {a['f']} vs code {b['e']} {b['f']}")
            break
        if a["e"] in ("eval", "init"):
            if float(a["h"]) / 1000.0 != b["h"]:
                mm.append(f"event {i} ({a['e']} {a['f']}): height model {a['h']} vs code {b['h']}")
            if a["n"] != b["n"]:
                mm.append(f"event {i}: count model {a['n']} vs code {b['n']}")
            vs = V_FLOW * a["flow"]["vsysMul"]
            m = V_FLOW * RHO / (1000.0 * a["flow"]["mDiv"])
            if not math.isclose(vs, b["vsys"], rel_tol=1e-12) or not math.isclose(m, b["m"], rel_tol=1e-12):
                mm.append(f"event {i}: flow model (vsys={vs}, m={m}) vs code (vsys={b['vsys']}, m={b['m']})")
        if a["e"] == "eval" and float(a["v"]) != float(b["v"]):
            mm.append(f"event {i}: excess model {a['v']} vs code {b['v']}")
        if a["e"] == "size":
            if a["oc"] != b["oc"]:
                mm.append(f"event {i}: sizing outcome model {a['oc']} vs code {b['oc']}")
            elif a["oc"] != "ZeroDiv" and abs(float(a["h"]) / 1000.0 - b["h"]) > 2e-4:
                mm.append(f"event {i}: sized height model {a['h']} vs code {b['h']}")
    if not mm and len(mlog) != len(clog):
        extra = (mlog if len(mlog) > len(clog) else clog)[n]
        mm.append(f"event count: model {len(mlog)} vs code {len(clog)}; first extra: {extra}")
    if mo["k"] != out["k"]:
        mm.append(f"outcome kind: model {mo} vs code {out}")
    elif mo["k"] == "raise":
        if mo["type"] != out["type"] or not out["msg"].startswith(mo["msg"]):
            mm.append(f"exception: model {mo['type']}({mo['msg'][:50]}) vs code {out['type']}({out['msg'][:50]})")
    elif mo["k"] == "sel":
        if fkey(mo["f"]) != out["f"]:
            mm.append(f"selected field: model {mo['f']} vs code {out['f']}")
        if beh["mode"] != "RW" and mo["key"] != out["key"]:
            mm.append(f"selection_key: model {mo['key']} vs code {out['key']}")
        mh = float(beh["live"][1]) / 1000.0
        if abs(mh - out["H"]) > 2e-4:
            mm.append(f"final height: model {mh} vs code {out['H']}")
        ls = beh["lastSim"]
        if ls and out["sim_at"]:
            if fkey(ls[0]) != out["sim_at"][0] or abs(float(ls[1]) / 1000.0 - out["sim_at"][1]) > 1e-3:
                mm.append(f"hp_eft describes: model {ls} vs code {out['sim_at']}")
        elif bool(ls) != bool(out["sim_at"]):
            mm.append(f"hp_eft describes: model {ls} vs code {out['sim_at']}")
    return mm
