"""Python value -> TLA+ expression text."""


def tla(v) -> str:
    if isinstance(v, bool):
        return "TRUE" if v else "FALSE"
    if isinstance(v, int):
        return str(v) if v >= 0 else f"({v})"
    if isinstance(v, str):
        return '"' + v.replace("\\", "\\\\").replace('"', '\\"') + '"'
    if isinstance(v, (list, tuple)):
        return "<<" + ", ".join(tla(x) for x in v) + ">>"
    if isinstance(v, (set, frozenset)):
        return "{" + ", ".join(sorted(tla(x) for x in v)) + "}"
    if isinstance(v, dict):
        return "[" + ", ".join(f"{k} |-> {tla(x)}" for k, x in v.items()) + "]"
    raise TypeError(f"cannot render {type(v)} as TLA+")


class TSet(list):
    """A list rendered as a TLA+ set (elements need not be hashable)."""


def tla_set(items) -> str:
    return "{" + ",\n   ".join(tla(x) for x in items) + "}"
