"""./check <ID> [--tier quick|thorough] [--replay <path>]   |   ./check selftest   |   ./check seeds [--only C03,C09]"""
from __future__ import annotations

import argparse
import os
import sys
import traceback


def main() -> int:
    ap = argparse.ArgumentParser()
    ap.add_argument("pid")
    ap.add_argument("--tier", choices=["quick", "thorough"])
    ap.add_argument("--replay")
    ap.add_argument("--only")
    a = ap.parse_args()
    if a.tier:
        os.environ["VERIF_TIER"] = a.tier
    from .core import MachineryError  # noqa: PLC0415

    try:
        if a.pid == "selftest":
            from . import selftest  # noqa: PLC0415

            return selftest.run()
        if a.pid == "seeds":
            from . import seedsuite  # noqa: PLC0415

            return seedsuite.run(a.only.split(",") if a.only else None)
        if a.replay:
            from . import replay  # noqa: PLC0415

            return replay.run(a.pid, a.replay)
        from .registry import REGISTRY  # noqa: PLC0415

        if a.pid not in REGISTRY:
            print(f"unknown property {a.pid}", file=sys.stderr)
            return 2
        return REGISTRY[a.pid]()
    except MachineryError as e:
        print(f"MACHINERY-ERROR {a.pid}: {e}", file=sys.stderr)
        return 2
    except Exception:  # noqa: BLE001
        traceback.print_exc()
        return 2


if __name__ == "__main__":
    sys.exit(main())
