"""C17 (written input files valid + round trip) and C18 (command-line exit status, validation verdict)."""
from __future__ import annotations

import contextlib
import copy
import io
import json
import math
import os
import random
import shutil
import subprocess
import sys
import tempfile
import warnings
from pathlib import Path

from .core import BUILD, REPO, Check, MachineryError, import_repo, parallel_map, require_tlc_ok, run_tlc, tier
from .tla import tla

FIXED_IO = set(filter(None, os.environ.get("VERIF_FIXED_IO", "F1,F5").split(",")))
SCHEMAS = ["borehole", "design", "file_structure", "fluid", "geometric_bi_rectangle", "geometric_bi_rectangle_constrained", "geometric_bi_zoned_rectangle",
           "geometric_near_square", "geometric_rectangle", "geometric_rowwise", "grout", "loads", "pipe_coaxial", "pipe_single_double_u_tube", "simulation", "soil"]


def load_schemas():
    d = {}
    for s in SCHEMAS:
        p = REPO / "ghedesigner" / "schemas" / f"{s}.schema.json"
        if not p.exists():
            raise MachineryError(f"binding surface: schema file {p} missing")
        d[s] = json.loads(p.read_text())
    return d


def schema_data_module(schemas) -> str:
    req = ", ".join(f"{s} |-> {tla(set(sc.get('required', [])))}" for s, sc in schemas.items())
    enums = []
    for s, sc in schemas.items():
        for k, p in sc.get("properties", {}).items():
            if "enum" in p:
                enums.append(f'("{s}.{k}" :> {tla(set(p["enum"]))})')
            elif "const" in p:
                enums.append(f'("{s}.{k}" :> {tla({p["const"]})})')
    return ("---- MODULE SchemaData ----\n\\* GENERATED from ghedesigner/schemas/*.json by harness/p_io.py - do not edit\nEXTENDS TLC\n"
            f"SchemaRequired == [{req}]\nSchemaEnum == {' @@ '.join(enums)}\n====\n")


# ------------------------------------------------------------------------------------------------
# building a manager for an abstract configuration
# ------------------------------------------------------------------------------------------------
PROP = [[0.0, 0.0], [60.0, 0.0], [60.0, 45.0], [30.0, 55.0], [0.0, 45.0]]
NOGO = [[[20.0, 20.0], [30.0, 20.0], [30.0, 30.0], [20.0, 30.0]]]


def profile(amp=4000.0):
    return [amp * (math.sin(2 * math.pi * h / 8760) + 0.25 * math.sin(2 * math.pi * (h % 24) / 24) + 0.2) for h in range(8760)]


def build_manager(cfg, rnd: random.Random, loads=None, small=False):
    import_repo()
    from ghedesigner.manager import GHEManager  # noqa: PLC0415

    u = rnd.uniform
    m = GHEManager()
    if cfg["fluid"] == "WATER":
        m.set_fluid("Water" if rnd.random() < 0.5 else "water", 0.0, round(u(5, 30), 2))
    else:
        m.set_fluid(cfg["fluid"].title() if rnd.random() < 0.5 else cfg["fluid"], round(u(5, 35), 1), round(u(5, 30), 2))
    m.set_grout(conductivity=round(u(0.6, 2.4), 3), rho_cp=round(u(2.0e6, 4.2e6), 0))
    m.set_soil(conductivity=round(u(1.0, 3.5), 3), rho_cp=round(u(1.8e6, 3.0e6), 0), undisturbed_temp=round(u(8, 22), 2))
    if cfg["pipe"] == "COAXIAL":
        m.set_coaxial_pipe(inner_pipe_d_in=0.0442, inner_pipe_d_out=0.050, outer_pipe_d_in=0.0974, outer_pipe_d_out=0.11, roughness=1e-6,
                           conductivity_inner=round(u(0.3, 0.5), 3), conductivity_outer=round(u(0.3, 0.5), 3), rho_cp=1542000.0)
    else:
        kw = dict(inner_diameter=0.03404, outer_diameter=0.04216, shank_spacing=round(u(0.02, 0.026), 5), roughness=1e-6, conductivity=round(u(0.3, 0.5), 3), rho_cp=1542000.0)
        {"SINGLEUTUBE": m.set_single_u_tube_pipe, "DOUBLEUTUBEPARALLEL": m.set_double_u_tube_pipe_parallel, "DOUBLEUTUBESERIES": m.set_double_u_tube_pipe_series}[cfg["pipe"]](**kw)
    hmax, hmin = round(u(120, 200), 1), round(u(40, 70), 1)
    m.set_borehole(height=rnd.choice([hmax, 96.0]), buried_depth=round(u(1, 4), 2), diameter=0.15 if cfg["pipe"] != "COAXIAL" else 0.2)
    m.set_simulation_parameters(num_months=rnd.choice([12, 24, 240]) if not small else 12, max_eft=round(u(30, 38), 1), min_eft=round(u(1, 6), 1), max_height=hmax, min_height=hmin,
                                max_boreholes=rnd.choice([30, 200]) if cfg["maxbh"] else None, continue_if_design_unmet=bool(cfg["cont"]))
    m.set_ground_loads_from_hourly_list(loads if loads is not None else profile(round(u(2000, 9000), 0)))
    meth = cfg["method"]
    if meth == "NEARSQUARE":
        m.set_design_geometry_type("nearsquare")
        m.set_geometry_constraints_near_square(b=round(u(4, 7), 2), length=round(u(15, 60), 1))
    elif meth == "RECTANGLE":
        m.set_geometry_constraints_rectangle(length=round(u(30, 80), 1), width=round(u(20, 50), 1), b_min=3.0, b_max=round(u(6, 10), 2))
    elif meth == "BIRECTANGLE":
        m.set_geometry_constraints_bi_rectangle(length=round(u(30, 80), 1), width=round(u(20, 50), 1), b_min=3.0, b_max_x=round(u(6, 10), 2), b_max_y=round(u(6, 12), 2))
    elif meth == "BIZONEDRECTANGLE":
        m.set_geometry_constraints_bi_zoned_rectangle(length=round(u(30, 60), 1), width=round(u(20, 40), 1), b_min=4.0, b_max_x=round(u(8, 10), 2), b_max_y=round(u(8, 12), 2))
    elif meth == "BIRECTANGLECONSTRAINED":
        # the API accepts a list of outlines as well as ONE outline given flat (a list of points), and no no-go zone at all
        shape = rnd.choice(["nested", "flat-nogo", "flat-property", "flat-both", "no-nogo"])
        prop = copy.deepcopy(PROP) if shape in ("flat-property", "flat-both") else [copy.deepcopy(PROP)]
        nogo = [] if shape == "no-nogo" else (copy.deepcopy(NOGO[0]) if shape in ("flat-nogo", "flat-both") else copy.deepcopy(NOGO))
        m.set_geometry_constraints_bi_rectangle_constrained(b_min=5.0, b_max_x=round(u(10, 14), 2), b_max_y=round(u(10, 14), 2), property_boundary=prop, no_go_boundaries=nogo)
    else:
        m.set_geometry_constraints_rowwise(perimeter_spacing_ratio=round(u(0.6, 0.9), 2) if cfg["perimeter"] else None, max_spacing=round(u(10, 14), 1), min_spacing=round(u(5, 8), 1),
                                           spacing_step=0.5, max_rotation=rnd.choice([90.0, 45.0]), min_rotation=rnd.choice([-90.0, -45.0, 0.0]), rotate_step=rnd.choice([5.0, 15.0]),
                                           property_boundary=copy.deepcopy(PROP), no_go_boundaries=copy.deepcopy(NOGO) if rnd.random() < 0.6 else [])      # no no-go zone at all is a valid RowWise input
    # a system flow is shared by all boreholes of the field: keep the per-borehole flow in the usual range
    fr = round(u(0.1, 0.6), 3) if cfg["flow"] == "BOREHOLE" else round(u(6.0, 14.0), 2)
    m.set_design(flow_rate=fr, flow_type_str=cfg["flow"].lower() if rnd.random() < 0.5 else cfg["flow"])
    return m


def abstract_cfg(m):
    """The configuration a manager holds, read back from the real objects (what 'the same configuration' means for C17)."""
    sp = m._simulation_parameters
    gc = m._geometric_constraints
    d = {"method": gc.type.name, "pipe": m.pipe_type.name, "fluid": m._fluid.fluid_type.name, "flow": m._design.flow_type.name,
         "maxbh": sp.max_boreholes, "cont": bool(sp.continue_if_design_unmet), "flow_rate": m._design.V_flow,
         "limits": (sp.max_EFT_allowable, sp.min_EFT_allowable, sp.max_height, sp.min_height, sp.end_month),
         "fluid_state": (m._fluid.concentration_percent, m._fluid.temperature),
         # what the fluid IS (its physical properties), not only what it is called
         "fluid_props": (float(m._fluid.rho), float(m._fluid.cp), float(m._fluid.mu), float(m._fluid.k)), "grout": (m._grout.k, m._grout.rhoCp),
         "soil": (m._soil.k, m._soil.rhoCp, m._soil.ugt), "bore": (m._borehole.D, m._borehole.r_b),
         "pipe_geo": (repr(m._pipe.r_in), repr(m._pipe.r_out), m._pipe.s, m._pipe.roughness, repr(m._pipe.k), m._pipe.rhoCp),
         "geom": {k: v for k, v in vars(gc).items() if k != "type"}, "loads_len": len(m._ground_loads), "loads_head": list(m._ground_loads[:5])}
    return d


def _c17_one(item):
    import_repo()
    import ghedesigner.manager as gm  # noqa: PLC0415
    from ghedesigner.validate import validate_input_file  # noqa: PLC0415

    cfg, keys, seed = item["cfg"], item["keys"], item["seed"]
    rnd = random.Random(seed)
    bad = []
    d = Path(tempfile.mkdtemp(prefix="c17-", dir=BUILD))
    try:
        with contextlib.redirect_stdout(io.StringIO()), contextlib.redirect_stderr(io.StringIO()):
            m = build_manager(cfg, rnd)
            f1 = d / "a.json"
            m.write_input_file(f1)
            data = json.loads(f1.read_text())
            # key sets of the real file = the model's ToInput (a difference alone is conformance drift, not a verdict)
            drift = []
            for sec, ks in keys.items():
                if sec == "version":
                    continue
                got = set(data.get(sec, {}).keys())
                if got != set(ks):
                    drift.append(f"section {sec}: written keys {sorted(got)} differ from the model's {sorted(ks)}")
            cfg0 = abstract_cfg(m)
            nulls = [f"{sec}.{k}" for sec, v in data.items() if isinstance(v, dict) for k, x in v.items() if x is None]
            if nulls:
                bad.append(f"null written for {nulls}")
            verdict = validate_input_file(f1)
            if verdict != 0:
                bad.append(f"WrittenIsValid: validate_input_file returned {verdict}")
            # load through the real command-line worker with the design run intercepted
            captured = {}
            real = (gm.GHEManager.find_design, gm.GHEManager.prepare_results, gm.GHEManager.write_output_files)
            gm.GHEManager.find_design = lambda self, throw=True: captured.setdefault("m", self) and 0
            gm.GHEManager.prepare_results = lambda self, *a, **k: None
            gm.GHEManager.write_output_files = lambda self, *a, **k: None
            try:
                rc = gm._run_manager_from_cli_worker(f1, d / "out")
            except Exception as ex:  # noqa: BLE001
                rc = f"{type(ex).__name__}: {ex}"
            finally:
                gm.GHEManager.find_design, gm.GHEManager.prepare_results, gm.GHEManager.write_output_files = real
            if rc != 0 or "m" not in captured:
                bad.append(f"RoundTrip: loading the written file failed (worker returned {rc})")
            else:
                f2 = d / "b.json"
                captured["m"].write_input_file(f2)
                cfg1 = abstract_cfg(captured["m"])
                diff = [f"{k}: API {cfg0[k]!r} -> reloaded {cfg1[k]!r}" for k in cfg0 if not _same(cfg0[k], cfg1[k])]
                if diff:
                    bad.append(f"RoundTrip: the reloaded configuration differs from the one the API built: {diff[:3]}")
                if f1.read_bytes() != f2.read_bytes():
                    a, b = json.loads(f1.read_text()), json.loads(f2.read_text())
                    diff = [f"{s}.{k}: {a[s].get(k)!r} -> {b[s].get(k)!r}" for s in a if isinstance(a[s], dict) for k in set(a[s]) | set(b.get(s, {})) if a[s].get(k) != b.get(s, {}).get(k)]
                    bad.append(f"RoundTrip: re-written file differs: {diff[:4]}")
    except Exception as ex:  # noqa: BLE001
        bad.append(f"raised {type(ex).__name__}: {ex}")
        drift = []
    finally:
        shutil.rmtree(d, ignore_errors=True)
    return {"bad": bad, "drift": drift}


def _same(a, b):
    if isinstance(a, float) and isinstance(b, float):
        return a == b or abs(a - b) <= 1e-12 * max(abs(a), abs(b))      # min/max rotation are stored in radians and written in degrees
    if isinstance(a, (tuple, list)) and isinstance(b, (tuple, list)):
        return len(a) == len(b) and all(_same(x, y) for x, y in zip(a, b))
    if isinstance(a, dict) and isinstance(b, dict):
        return a.keys() == b.keys() and all(_same(a[k], b[k]) for k in a)
    return a == b


def _c17_design(item):
    """Same design from the API and from the re-loaded file."""
    import_repo()
    import warnings  # noqa: PLC0415

    import ghedesigner.manager as gm  # noqa: PLC0415

    from .p_history import result_of  # noqa: PLC0415

    cfg, seed = item["cfg"], item["seed"]
    d = Path(tempfile.mkdtemp(prefix="c17d-", dir=BUILD))
    try:
        with warnings.catch_warnings(), contextlib.redirect_stdout(io.StringIO()), contextlib.redirect_stderr(io.StringIO()):
            warnings.simplefilter("ignore")
            m = build_manager(cfg, random.Random(seed), loads=profile(3000.0), small=True)
            f1 = d / "a.json"
            m.write_input_file(f1)
            m.find_design()
            r1 = result_of(m)
            captured = {}
            real = gm.GHEManager.prepare_results, gm.GHEManager.write_output_files
            gm.GHEManager.prepare_results = lambda self, *a, **k: captured.setdefault("m", self) and None
            gm.GHEManager.write_output_files = lambda self, *a, **k: None
            try:
                gm._run_manager_from_cli_worker(f1, d / "out")
            finally:
                gm.GHEManager.prepare_results, gm.GHEManager.write_output_files = real
            r2 = result_of(captured["m"])
        return [] if r1 == r2 else [f"design from the API {r1} differs from the design of the re-loaded file {r2}"]
    except Exception as ex:  # noqa: BLE001
        return [f"raised {type(ex).__name__}: {ex}"]
    finally:
        shutil.rmtree(d, ignore_errors=True)


def run_c17() -> int:
    chk = Check("C17")
    t = tier()
    chk.rule = ("TLC enumerates the configuration product (6 methods incl. RowWise with/without perimeter ratio x 4 pipes x 5 fluids x 2 flow types x max_boreholes x continue) against "
                "schema facts regenerated from the repository; every configuration is built with the real setters (random in-range numbers), written, validated, re-loaded through "
                "the command-line worker and written again; distinct = configurations")
    chk.trusted = ["SchemaData.tla generated from ghedesigner/schemas/*.json", "TLC 1.8.0"]
    sd = schema_data_module(load_schemas())
    mod = f"---- MODULE MC_InputFile ----\nEXTENDS InputFile\nc_Fixed == {tla(FIXED_IO)}\n====\n"
    consts = "CONSTANTS\n Fixed <- c_Fixed\n"
    cfg = "INIT Init\nNEXT Next\nCHECK_DEADLOCK FALSE\n" + consts + "INVARIANT WrittenIsValid\nINVARIANT RoundTrip\nINVARIANT WriteIsIdempotent\n"
    res = run_tlc("MC_InputFile", cfg, extra_modules={"MC_InputFile.tla": mod, "SchemaData.tla": sd}, want_prints=False)
    chk.add_tlc(res)
    if res.violated:
        chk.violation(f"InputFile.tla invariant {res.violated} violated (the repository's schemas reject what to_input writes)", {"state": res.stdout.split('\nState ')[-1][:2000]})
    else:
        require_tlc_ok(res, "InputFile")
    cfg = "INIT Init\nNEXT Next\nCHECK_DEADLOCK FALSE\n" + consts + "INVARIANT Emit\n"
    res = run_tlc("MC_InputFile", cfg, extra_modules={"MC_InputFile.tla": mod, "SchemaData.tla": sd}, workers=1)
    require_tlc_ok(res, "InputFile gen")
    items = [{"cfg": p["cfg"], "keys": p["keys"], "seed": chk.seed * 7919 + i} for i, p in enumerate(res.prints)]
    if len(items) < 500:
        raise MachineryError(f"only {len(items)} configurations generated")
    rnd = random.Random(chk.seed)
    if t == "quick":
        # covering sample: every method x pipe, every fluid, both flags
        by = {}
        for it in items:
            by.setdefault((it["cfg"]["method"], it["cfg"]["perimeter"], it["cfg"]["pipe"]), []).append(it)
        items = [x for k in sorted(by) for x in rnd.sample(by[k], 6)]
    ndrift = 0
    for it, r in zip(items, parallel_map(_c17_one, items, chunksize=4)):
        chk.nontrivial.add(tuple(sorted(it["cfg"].items())))
        if r["bad"]:
            chk.violation(f"C17 configuration {it['cfg']}: {r['bad'][0]}", {"cfg": it["cfg"], "bad": r["bad"], "drift": r["drift"]})
        elif r["drift"]:
            ndrift += 1
            chk.note("conformance_drift_sample", r["drift"][:2])
    chk.note("conformance_drift", ndrift)
    if ndrift:
        print(f"NOTE: {ndrift} configuration(s) are written with other keys than the model's although C17's predicates hold on the real files")
    chk.traces += len(items)
    chk.evaluations += len(items)
    chk.sample({"cfg": items[0]["cfg"], "written_keys": items[0]["keys"]})
    # the same design from the API and from the re-loaded file
    dcfgs = [{"method": m, "perimeter": False, "pipe": p, "fluid": "WATER", "flow": fl, "maxbh": False, "cont": False}
             for m, p, fl in [("NEARSQUARE", "SINGLEUTUBE", "BOREHOLE"), ("RECTANGLE", "DOUBLEUTUBEPARALLEL", "SYSTEM")] + ([("BIRECTANGLE", "COAXIAL", "BOREHOLE"), ("BIZONEDRECTANGLE", "SINGLEUTUBE", "SYSTEM"), ("BIRECTANGLECONSTRAINED", "DOUBLEUTUBESERIES", "BOREHOLE")] if t == "thorough" else [])]
    ditems = [{"cfg": c, "seed": chk.seed + 17 * i} for i, c in enumerate(dcfgs)]
    for it, bad in zip(ditems, parallel_map(_c17_design, ditems)):
        if bad:
            chk.violation(f"C17 design round trip {it['cfg']['method']}: {bad[0]}", {"cfg": it["cfg"], "bad": bad})
    chk.note("design_round_trips", len(ditems))
    chk.exhaustive = True
    return chk.finish()


# ------------------------------------------------------------------------------------------------
# C18
# ------------------------------------------------------------------------------------------------
def base_input(amp=3000.0, big=False):
    return {
        "version": "1.5",
        "fluid": {"fluid_name": "Water", "concentration_percent": 0.0, "temperature": 20.0},
        "grout": {"conductivity": 1.0, "rho_cp": 3901000.0},
        "soil": {"conductivity": 2.0, "rho_cp": 2343493.0, "undisturbed_temp": 18.3},
        "pipe": {"inner_diameter": 0.03404, "outer_diameter": 0.04216, "shank_spacing": 0.01856, "roughness": 1e-6, "conductivity": 0.4, "rho_cp": 1542000.0, "arrangement": "SingleUTube"},
        "borehole": {"buried_depth": 2.0, "diameter": 0.14},
        "simulation": {"num_months": 12},
        "geometric_constraints": {"b": 5.0, "length": 20.0, "max_height": 135.0, "min_height": 60.0, "method": "NearSquare"},
        "design": {"flow_rate": 0.3, "flow_type": "Borehole", "max_eft": 35.0, "min_eft": 5.0},
        "loads": {"ground_loads": profile(amp if not big else 4.0e6)},
    }


SECTION_SCHEMA = {"fluid": "fluid", "grout": "grout", "soil": "soil", "pipe": "pipe_single_double_u_tube", "borehole": "borehole", "simulation": "simulation",
                  "geometric_constraints": "geometric_near_square", "design": "design"}
CASE_INSENSITIVE = {("fluid", "fluid_name"), ("pipe", "arrangement"), ("geometric_constraints", "method"), ("design", "flow_type"), ("simulation", "timestep")}


def corruptions(schemas):
    """Every single-field corruption the schema data admits: (name, mutate(dict))"""
    out = []
    for sec, sname in SECTION_SCHEMA.items():
        sc = schemas[sname]
        for k in sc.get("required", []):
            out.append((f"{sec}.{k}:missing", sec, k, "missing", None))
        for k, p in sc.get("properties", {}).items():
            if p.get("type") == "number":
                out.append((f"{sec}.{k}:type", sec, k, "set", "abc"))
                if "minimum" in p:
                    out.append((f"{sec}.{k}:below", sec, k, "set", p["minimum"] - 1))
                if "maximum" in p:
                    out.append((f"{sec}.{k}:above", sec, k, "set", p["maximum"] + 1))
            elif p.get("type") == "string":
                out.append((f"{sec}.{k}:type", sec, k, "set", 7))
                if "enum" in p or "const" in p:
                    out.append((f"{sec}.{k}:enum", sec, k, "set", "NOSUCHNAME"))
            elif p.get("type") == "boolean":
                out.append((f"{sec}.{k}:type", sec, k, "set", "yes"))
    for sec in SECTION_SCHEMA:
        out.append((f"{sec}:missing-section", sec, None, "nosection", None))
    # what only the file-structure schema sees: the top level itself
    fs = schemas["file_structure"]
    for k in fs.get("required", []):
        if k not in SECTION_SCHEMA:
            out.append((f"top.{k}:missing", k, None, "nosection", None))
    for k, p in fs.get("properties", {}).items():
        wrong = 7 if p.get("type") in ("string", "object", "array") else "abc"
        if k not in SECTION_SCHEMA:
            out.append((f"top.{k}:type", k, None, "settop", wrong))
    return out


def case_variants():
    out = []
    for style in ("lower", "upper", "mixed"):
        def f(s, style=style):
            return s.lower() if style == "lower" else s.upper() if style == "upper" else "".join(c.upper() if i % 2 else c.lower() for i, c in enumerate(s))
        out.append((f"case-{style}", f))
    return out


def apply_corruption(d, c):
    _, sec, k, kind, val = c
    d = copy.deepcopy(d)
    if kind == "missing":
        d[sec].pop(k, None)
    elif kind == "set":
        d[sec][k] = val
    elif kind == "nosection":
        d.pop(sec, None)
    elif kind == "settop":
        d[sec] = val
    return d


def independent_verdict(d, schemas) -> bool:
    """Does every section satisfy its schema (names upper-cased as the tool documents)? Independent jsonschema evaluation."""
    import jsonschema  # noqa: PLC0415

    d = copy.deepcopy(d)
    try:
        jsonschema.validate(d, schemas["file_structure"])
        for sec, key in CASE_INSENSITIVE:
            if sec in d and key in d[sec]:
                d[sec][key] = str(d[sec][key]).upper()
        arr = d["pipe"]["arrangement"]
        pschema = {"SINGLEUTUBE": "pipe_single_double_u_tube", "DOUBLEUTUBESERIES": "pipe_single_double_u_tube", "DOUBLEUTUBEPARALLEL": "pipe_single_double_u_tube", "COAXIAL": "pipe_coaxial"}.get(arr)
        gmap = {"BIRECTANGLE": "geometric_bi_rectangle", "BIRECTANGLECONSTRAINED": "geometric_bi_rectangle_constrained", "BIZONEDRECTANGLE": "geometric_bi_zoned_rectangle",
                "NEARSQUARE": "geometric_near_square", "RECTANGLE": "geometric_rectangle", "ROWWISE": "geometric_rowwise"}
        gschema = gmap.get(d["geometric_constraints"]["method"])
        if pschema is None or gschema is None:
            return False
        for sec, sname in (("fluid", "fluid"), ("grout", "grout"), ("soil", "soil"), ("pipe", pschema), ("borehole", "borehole"), ("simulation", "simulation"),
                           ("geometric_constraints", gschema), ("design", "design")):
            jsonschema.validate(d[sec], schemas[sname])
        return True
    except (jsonschema.ValidationError, KeyError, TypeError):
        return False


def _validate_inprocess(item):
    import_repo()
    from ghedesigner.validate import validate_input_file  # noqa: PLC0415

    name, d = item
    p = Path(tempfile.mkdtemp(prefix="c18-", dir=BUILD)) / "in.json"
    try:
        p.write_text(json.dumps(d))
        with contextlib.redirect_stderr(io.StringIO()), contextlib.redirect_stdout(io.StringIO()):
            try:
                v = validate_input_file(p) == 0
            except Exception as ex:  # noqa: BLE001
                v = f"raises {type(ex).__name__}"
        return v
    finally:
        shutil.rmtree(p.parent, ignore_errors=True)


def _cli(args, cwd):
    env = dict(os.environ)
    env["PYTHONPATH"] = str(REPO)
    env["OMP_NUM_THREADS"] = "1"
    p = subprocess.run([sys.executable, "-m", "ghedesigner.manager", *args], cwd=cwd, env=env, capture_output=True, text=True, timeout=900, check=False)
    return p.returncode, p.stderr[-400:]


def _cli_case(item):
    """Materialise one case of Cli.tla and run the real console entry point as a subprocess."""
    case = item["case"]
    d = Path(tempfile.mkdtemp(prefix="c18cli-", dir=BUILD))
    try:
        data = base_input(big=not case["designOK"])
        if case.get("incomplete"):
            data["loads"]["ground_loads"] = []
        if not case["valid"]:
            data["fluid"]["concentration_percent"] = 99
        inp = d / "in.json"
        inp.write_text(json.dumps(data))
        out = d / "out"
        args = []
        if case["vonly"]:
            args.append("--validate-only")
        target = inp
        if case["convert"] != "none":
            args += ["--convert", "IDF" if case["convert"] == "IDF" else "XYZ"]
            if not case["vonly"] and case["convert"] == "IDF":
                if case["summaryOK"]:
                    shutil.copytree(item["summary_dir"], d / "sum")
                    target = d / "sum" / "SimulationSummary.json"
        args.append(str(target))
        if case["outdir"]:
            args.append(str(out))
        rc, err = _cli(args, d)
        outputs = (out / "SimulationSummary.json").exists() and (out / "BoreFieldData.csv").exists()
        idf = (d / "sum" / "out.idf").exists()
        return {"rc": rc, "outputs": outputs, "idf": idf, "stderr": err}
    finally:
        shutil.rmtree(d, ignore_errors=True)


def _cli_invalid(item):
    name, data, vonly = item
    d = Path(tempfile.mkdtemp(prefix="c18inv-", dir=BUILD))
    try:
        inp = d / "in.json"
        inp.write_text(json.dumps(data))
        args = ["--validate-only", str(inp)] if vonly else [str(inp), str(d / "out")]
        rc, err = _cli(args, d)
        return {"rc": rc, "outputs": (d / "out" / "SimulationSummary.json").exists(), "stderr": err}
    finally:
        shutil.rmtree(d, ignore_errors=True)


def run_c18() -> int:
    chk = Check("C18")
    t = tier()
    rnd = random.Random(chk.seed)
    chk.rule = ("Cli.tla enumerates validity x --validate-only x --convert x output directory x design outcome; every case is materialised and run through the real entry point as a "
                "subprocess; every single-field corruption the schemas admit (missing key, wrong type, out of range, unknown name, missing section) and three letter-casings of the "
                "case-insensitive names are judged against an independent jsonschema evaluation; distinct = cases")
    chk.trusted = ["independent jsonschema evaluation in harness/p_io.independent_verdict", "python -m ghedesigner.manager == the installed console script"]
    schemas = load_schemas()
    mod = f"---- MODULE MC_Cli ----\nEXTENDS Cli\nc_Fixed == {tla(FIXED_IO)}\n====\n"
    consts = "CONSTANTS\n Fixed <- c_Fixed\n"
    cfg = "INIT Init\nNEXT Next\nCHECK_DEADLOCK FALSE\n" + consts + "INVARIANT NonZeroOnFailure\nINVARIANT ZeroOnlyWithOutputs\nINVARIANT ZeroWhenFine\n"
    res = run_tlc("MC_Cli", cfg, extra_modules={"MC_Cli.tla": mod}, want_prints=False)
    chk.add_tlc(res)
    if res.violated:
        chk.violation(f"Cli.tla invariant {res.violated} violated", {"state": res.stdout.split('\nState ')[-1][:1500]})
    else:
        require_tlc_ok(res, "Cli")
    cfg = "INIT Init\nNEXT Next\nCHECK_DEADLOCK FALSE\n" + consts + "INVARIANT Emit\n"
    res = run_tlc("MC_Cli", cfg, extra_modules={"MC_Cli.tla": mod}, workers=1)
    require_tlc_ok(res, "Cli gen")
    cases = res.prints
    # a real summary directory for --convert IDF
    sdir = Path(tempfile.mkdtemp(prefix="c18sum-", dir=BUILD))
    try:
        (sdir / "in.json").write_text(json.dumps(base_input()))
        rc, err = _cli([str(sdir / "in.json"), str(sdir / "sum")], sdir)
        if rc != 0 or not (sdir / "sum" / "SimulationSummary.json").exists():
            chk.violation("C18: a valid tiny design run did not exit 0 with its outputs", {"rc": rc, "stderr": err})
            return chk.finish()
        # de-duplicate cases that the command line cannot distinguish
        # Only what the command line cannot express is collapsed: the summary flag matters for "--convert IDF <summary>" alone, and
        # then the input file (valid / design outcome) is not on the command line at all. Every other combination of options,
        # including an unsupported --convert together with an output directory, is a different invocation and is run.
        seen = {}
        for c in cases:
            k = dict(c["case"])
            if not k["vonly"] and k["convert"] == "IDF":
                k.update(designOK=True, valid=True)
            else:
                k["summaryOK"] = True
            if not k["valid"]:
                k["designOK"] = True          # the schema-invalid input is the same file either way
                k["incomplete"] = False
            if not k["vonly"] and k["convert"] == "IDF":
                k["incomplete"] = False       # the input file is not on the command line
            if k["incomplete"]:
                k["designOK"] = True          # no design is started from an empty load list
            key = tuple(sorted(k.items()))
            if key in seen and (seen[key]["exit"], seen[key]["outputs"], seen[key]["idf"]) != (c["exit"], c["outputs"], c["idf"]):
                raise MachineryError(f"Cli.tla gives two verdicts for one invocation: {k}")
            seen.setdefault(key, c)
        items = [{"case": dict(k), "expect": c, "summary_dir": str(sdir / "sum")} for k, c in seen.items()]
        for it, r in zip(items, parallel_map(_cli_case, items)):
            chk.nontrivial.add(tuple(sorted(it["case"].items())))
            e = it["expect"]
            # the model's verdict for this representative
            want_zero = e["exit"] == 0
            if (r["rc"] == 0) != want_zero or r["outputs"] != e["outputs"] or r["idf"] != e["idf"]:
                # judge the property directly on the observation
                fails = []
                c = it["case"]
                failure = (not c["valid"] and (c["vonly"] or c["convert"] == "none")) or (not c["vonly"] and c["convert"] == "other") or (not c["vonly"] and c["convert"] == "none" and not r["outputs"])
                if failure and r["rc"] == 0:
                    fails.append("NonZeroOnFailure")
                if r["rc"] == 0 and not (r["outputs"] or r["idf"] or (c["vonly"] and c["valid"])):
                    fails.append("ZeroOnlyWithOutputs")
                if fails:
                    chk.violation(f"C18 case {c}: exit {r['rc']}, outputs {r['outputs']}, idf {r['idf']}: {fails}", {"case": c, "observed": r, "model": e})
                else:
                    chk.count("conformance_drift")
        chk.traces += len(items)
        chk.note("cli_decision_cases", len(items))
        chk.sample({"case": items[0]["case"], "model_exit": items[0]["expect"]["exit"]})
    finally:
        shutil.rmtree(sdir, ignore_errors=True)
    # validation verdict = conjunction of the section schemas
    base = base_input()
    vitems = []
    for c in corruptions(schemas):
        vitems.append((c[0], apply_corruption(base, c)))
    for vname, f in case_variants():
        d = copy.deepcopy(base)
        for sec, key in CASE_INSENSITIVE:
            if key in d.get(sec, {}):
                d[sec][key] = f(d[sec][key])
        vitems.append((vname, d))
        d2 = copy.deepcopy(d)
        d2["simulation"]["timestep"] = f("hybrid")
        vitems.append((vname + "-timestep", d2))
    vitems.append(("valid-base", base))
    # the repository's own demo inputs as further bases: every geometry method and pipe arrangement, each valid as shipped and
    # corrupted in the method / arrangement names and in the required keys of its own geometry schema
    gmap_l = {"BIRECTANGLE": "geometric_bi_rectangle", "BIRECTANGLECONSTRAINED": "geometric_bi_rectangle_constrained", "BIZONEDRECTANGLE": "geometric_bi_zoned_rectangle",
              "NEARSQUARE": "geometric_near_square", "RECTANGLE": "geometric_rectangle", "ROWWISE": "geometric_rowwise"}
    seen_kinds = set()
    for f in sorted((REPO / "demos").glob("*.json")):
        try:
            d = json.loads(f.read_text())
            kind = (str(d["geometric_constraints"]["method"]).upper(), str(d["pipe"]["arrangement"]).upper())
        except Exception:  # noqa: BLE001
            continue
        if kind in seen_kinds or kind[0] not in gmap_l:
            continue
        seen_kinds.add(kind)
        tag = f"demo[{kind[0]},{kind[1]}]"
        vitems.append((f"{tag}:as-shipped", d))
        for sec, key, val in (("geometric_constraints", "method", "NOSUCHMETHOD"), ("geometric_constraints", "method", "Hexagon"), ("pipe", "arrangement", "TRIPLEUTUBE")):
            d2 = copy.deepcopy(d)
            d2[sec][key] = val
            vitems.append((f"{tag}:{sec}.{key}={val}", d2))
        for k in schemas[gmap_l[kind[0]]].get("required", []):
            if k in d["geometric_constraints"] and k != "method":
                d3 = copy.deepcopy(d)
                del d3["geometric_constraints"][k]
                vitems.append((f"{tag}:geometric_constraints.{k}:missing", d3))
    verdicts = parallel_map(_validate_inprocess, vitems, chunksize=4)
    nrej = 0
    for (name, d), v in zip(vitems, verdicts):
        want = independent_verdict(d, schemas)
        got = v is True
        chk.nontrivial.add(("validate", name))
        if not want:
            nrej += 1
        if got != want:
            chk.violation(f"C18 validation verdict for '{name}': tool {'accepts' if got else 'rejects'} ({v}), schemas {'accept' if want else 'reject'}", {"case": name})
    chk.evaluations += len(vitems)
    chk.note("validation_cases", len(vitems))
    chk.note("validation_cases_schema_rejects", nrej)
    if nrej < 40:
        raise MachineryError("vacuity: too few rejected corruption cases")
    # exit status of invalid inputs through the real entry point
    inv = [(n, d) for (n, d) in vitems if not independent_verdict(d, schemas)]
    k = 24 if t == "quick" else len(inv)
    sample = inv if len(inv) <= k else rnd.sample(inv, k)
    sitems = [(n, d, i % 2 == 0) for i, (n, d) in enumerate(sample)]
    for (n, _, vonly), r in zip(sitems, parallel_map(_cli_invalid, sitems)):
        if r["rc"] == 0 or r["outputs"]:
            chk.violation(f"C18: invalid input '{n}' ({'--validate-only' if vonly else 'run'}) exits {r['rc']} (outputs written: {r['outputs']})", {"case": n, "validate_only": vonly, "observed": r})
    chk.traces += len(sitems)
    chk.note("invalid_inputs_run_as_subprocess", len(sitems))
    # valid case variants exit 0 with --validate-only
    vitems2 = [(n, d, True) for (n, d) in vitems if independent_verdict(d, schemas)][:8]
    for (n, _, _), r in zip(vitems2, parallel_map(_cli_invalid, vitems2)):
        if r["rc"] != 0:
            chk.violation(f"C18: valid input '{n}' --validate-only exits {r['rc']}", {"case": n, "observed": r})
    chk.traces += len(vitems2)
    chk.exhaustive = True
    return chk.finish()


# ------------------------------------------------------------------------------------------------
# Wiring.tla: what set_design / find_design forward to the search class (used by C20, C13, C17)
# ------------------------------------------------------------------------------------------------
def _wiring_case(c):
    """Replay one Wiring.tla history on a real manager; the search constructors are captured, no physics runs."""
    from types import SimpleNamespace  # noqa: PLC0415

    import_repo()
    import ghedesigner.design as gd  # noqa: PLC0415
    from ghedesigner.enums import FlowConfigType, TimestepType  # noqa: PLC0415

    bad = []
    rnd = random.Random(hash((c["geom"], len(c["hist"]))) & 0xFFFF)
    cfgc = {"method": c["geom"], "perimeter": True, "pipe": "SINGLEUTUBE", "fluid": "WATER", "flow": "BOREHOLE", "maxbh": False, "cont": False}
    rates = {"BOREHOLE": {1: 0.25, 2: 0.4}, "SYSTEM": {1: 7.5, 2: 11.0}}
    with contextlib.redirect_stdout(io.StringIO()), contextlib.redirect_stderr(io.StringIO()), warnings.catch_warnings():
        warnings.simplefilter("ignore")
        m = build_manager(cfgc, rnd, loads=profile(3000.0), small=True)
        m._design = None
        user = None
        for call in c["hist"]:
            if call[0] == "set_design":
                fr = rates[call[1]][call[2]]
                m.set_design(flow_rate=fr, flow_type_str=call[1].lower())
                user = {"flow_rate": fr, "flow_type": FlowConfigType.SYSTEM if call[1] == "SYSTEM" else FlowConfigType.BOREHOLE, "borehole": m._borehole,
                        "pipe_type": m.pipe_type, "fluid": m._fluid, "pipe": m._pipe, "grout": m._grout, "soil": m._soil, "sim_params": m._simulation_parameters,
                        "loads": m._ground_loads, "geometry": m._geometric_constraints}
            elif call[0] == "reset":
                if call[1] == "soil":
                    m.set_soil(conductivity=2.9, rho_cp=2.2e6, undisturbed_temp=14.0)
                else:
                    m.set_borehole(height=88.0, buried_depth=3.5, diameter=0.15)
        d = m._design
        if user["flow_type"].name != c["flow"] or user["flow_rate"] != rates[c["flow"]][c["rate"]]:
            return ["machinery: the replay's last set_design differs from the model's Expected"]
        got = {"flow_rate": d.V_flow, "flow_type": d.flow_type, "borehole": d.borehole, "pipe_type": d.bhe_type, "fluid": d.fluid, "pipe": d.pipe, "grout": d.grout, "soil": d.soil,
               "sim_params": d.sim_params, "loads": d.hourly_extraction_ground_loads, "geometry": d.geometric_constraints}
        where = f"{c['geom']} after {[tuple(h) for h in c['hist']]}"
        for k, v in got.items():
            if v is not user[k] and v != user[k]:
                bad.append(f"set_design for {where}: the design object's {k} is not what the user gave in the last set_design call ({v!r})")
        if d.method != TimestepType.HYBRID:
            bad.append(f"set_design for {where}: time-step method {d.method}")
        # find_design: capture what the search class is constructed with
        captured = {}
        names = ["Bisection1D", "Bisection2D", "BisectionZD", "RowWiseModifiedBisectionSearch"]
        real = {n: getattr(gd, n) for n in names}

        def make(nm):
            def ctor(*a, **kw):
                captured["cls"] = nm
                captured["a"] = a
                captured["kw"] = kw
                return SimpleNamespace()
            return ctor

        for n in names:
            setattr(gd, n, make(n))
        try:
            d.find_design()
        finally:
            for n in names:
                setattr(gd, n, real[n])
    if captured.get("cls") != c["cls"]:
        return bad + [f"find_design for {where} constructs {captured.get('cls')}, model {c['cls']}"]
    vals = list(captured["a"]) + list(captured["kw"].values())
    for k in ("borehole", "pipe_type", "fluid", "pipe", "grout", "soil", "sim_params", "loads"):
        if not any(v is user[k] for v in vals):
            bad.append(f"find_design for {where}: the search is not given the {k} captured by the last set_design")
    if captured["kw"].get("flow_type") != user["flow_type"]:
        bad.append(f"find_design for {where}: the search gets flow_type {captured['kw'].get('flow_type')}, the last set_design said {c['flow']}")
    if captured["kw"].get("method") != TimestepType.HYBRID:
        bad.append(f"find_design for {where}: the search gets method {captured['kw'].get('method')}")
    if not any(isinstance(v, float) and v == user["flow_rate"] for v in vals):
        bad.append(f"find_design for {where}: the search is not given the flow rate of the last set_design")
    return bad


def _wiring_file_case(item):
    """The same forwarding through the input-file entry point: a manager configured through the API writes its input file, the command-line
    worker loads it, and the search constructor must be given the flow type and rate the user chose (Wiring.tla Forwarded for the file path)."""
    from types import SimpleNamespace  # noqa: PLC0415

    import_repo()
    import ghedesigner.design as gd  # noqa: PLC0415
    import ghedesigner.manager as gm  # noqa: PLC0415
    from ghedesigner.enums import FlowConfigType  # noqa: PLC0415

    geom, flow, rate = item
    rnd = random.Random(hash((geom, flow)) & 0xFFFF)
    cfgc = {"method": geom, "perimeter": True, "pipe": "SINGLEUTUBE", "fluid": "WATER", "flow": flow, "maxbh": False, "cont": False}
    bad = []
    d = Path(tempfile.mkdtemp(prefix="c20file-", dir=BUILD))
    names = ["Bisection1D", "Bisection2D", "BisectionZD", "RowWiseModifiedBisectionSearch"]
    real = {n: getattr(gd, n) for n in names}
    real_m = (gm.GHEManager.find_design, gm.GHEManager.prepare_results, gm.GHEManager.write_output_files)
    captured = {}
    try:
        with contextlib.redirect_stdout(io.StringIO()), contextlib.redirect_stderr(io.StringIO()), warnings.catch_warnings():
            warnings.simplefilter("ignore")
            m = build_manager(cfgc, rnd, loads=profile(3000.0), small=True)
            m.set_design(flow_rate=rate, flow_type_str=flow.lower())
            f1 = d / "a.json"
            m.write_input_file(f1)

            def make(nm):
                def ctor(*a, **kw):
                    captured["cls"], captured["a"], captured["kw"] = nm, a, kw
                    return SimpleNamespace()
                return ctor

            def fd(self, throw=True):
                for n in names:
                    setattr(gd, n, make(n))
                try:
                    self._design.find_design()
                finally:
                    for n in names:
                        setattr(gd, n, real[n])
                return 0

            gm.GHEManager.find_design = fd
            gm.GHEManager.prepare_results = lambda self, *a, **k: None
            gm.GHEManager.write_output_files = lambda self, *a, **k: None
            try:
                rc = gm._run_manager_from_cli_worker(f1, d / "out")
            finally:
                gm.GHEManager.find_design, gm.GHEManager.prepare_results, gm.GHEManager.write_output_files = real_m
        where = f"{geom} configured with a {flow} flow of {rate} L/s, written to an input file and run from it"
        if rc != 0 or "kw" not in captured:
            return [f"{where}: the worker returned {rc} without constructing a search"]
        want = FlowConfigType.SYSTEM if flow == "SYSTEM" else FlowConfigType.BOREHOLE
        if captured["kw"].get("flow_type") != want:
            bad.append(f"{where}: the search gets flow_type {captured['kw'].get('flow_type')}")
        vals = list(captured["a"]) + list(captured["kw"].values())
        if not any(isinstance(v, float) and v == rate for v in vals):
            bad.append(f"{where}: the search is not given the flow rate")
    except Exception as ex:  # noqa: BLE001
        bad.append(f"{geom} / {flow}: raised {type(ex).__name__}: {ex}")
    finally:
        shutil.rmtree(d, ignore_errors=True)
    return bad


def wiring(chk: Check):
    cfg = "INIT Init\nNEXT Next\nCHECK_DEADLOCK FALSE\nINVARIANT Forwarded\nINVARIANT DesignHolds\nINVARIANT GeneratorGetsUserGeometry\nINVARIANT Emit\n"
    res = run_tlc("Wiring", cfg, workers=1)
    chk.add_tlc(res)
    if res.violated:
        chk.violation(f"Wiring.tla invariant {res.violated} violated", {})
        return
    require_tlc_ok(res, "Wiring")
    cases = res.prints
    if len(cases) != 2088:
        raise MachineryError(f"Wiring: {len(cases)} cases")
    for c, bad in zip(cases, parallel_map(_wiring_case, cases, chunksize=8)):
        for b in bad[:2]:
            if b.startswith("machinery"):
                raise MachineryError(b)
            chk.violation(f"C20/C13 wiring: {b}", {"case": c})
    chk.traces += len(cases)
    chk.note("wiring_cases_replayed", len(cases))
    items = [(g, f, r) for g in ("NEARSQUARE", "RECTANGLE", "BIRECTANGLE", "BIZONEDRECTANGLE", "BIRECTANGLECONSTRAINED", "ROWWISE") for f, r in (("BOREHOLE", 0.25), ("SYSTEM", 7.5))]
    for it, bad in zip(items, parallel_map(_wiring_file_case, items, chunksize=1)):
        for b in bad[:2]:
            chk.violation(f"C20/C13 wiring through the input file: {b}", {"case": list(it)})
    chk.traces += len(items)
    chk.note("wiring_input_file_cases", len(items))
