"""./check selftest : demonstrate the binding.
1. seeded mutations: copy ghedesigner/ to a scratch directory outside /repo and /verif, apply one mutation at a time, run the relevant quick check with
   VERIF_REPO pointing at the copy, expect exit 1;
2. recorded traces: corrupt one logged field / drop one event and expect the trace validators to reject."""
from __future__ import annotations

import os
import shutil
import subprocess
import sys
import tempfile
from pathlib import Path

from .core import REPO, VERIF

# (property to run, file, old text, new text, what)
MUTATIONS = [
    ("C05", "search_routines.py", "            if c_sign == x_l_sign:\n                x_l_idx = c_idx", "            if c_sign != x_l_sign:\n                x_l_idx = c_idx", "bisection bracket update swapped"),
    ("C02", "search_routines.py", "if x < self.sim_params.max_boreholes][-1]", "if x <= self.sim_params.max_boreholes + 1][-1]", "cap filter admits one candidate above the cap"),
    ("C12", "ground_heat_exchangers.py", "        self.simulate(method=method)\n", "        pass\n", "no re-simulation after sizing (stale hp_eft)"),
    ("C06", "ground_loads.py", "month_load = self.monthly_cl[i] - self.monthly_hl[i] - month_peak_cl + month_peak_hl", "month_load = self.monthly_cl[i] - self.monthly_hl[i] - month_peak_cl - month_peak_hl", "sign slip in the monthly energy balance"),
    ("C07", "ground_loads.py", "if i < self.start_month + self.peak_retain_start:", "if i < self.start_month + self.peak_retain_start - 1:", "peak retention window 11 months"),
    ("C08", "ground_loads.py", "        lmh = 31 * HRS_IN_DAY", "        lmh = 30 * HRS_IN_DAY", "last_month_hour of January off by one day"),
    ("C09", "ground_heat_exchangers.py", "tf_bulk = tb + q_dot_b[i] / h * rb", "tf_bulk = tb + q_dot_b[i - 1] / h * rb", "resistance term uses the previous load"),
    ("C11", "ground_heat_exchangers.py", "while value <= min_log_time_lts:", "while value <= min_log_time_lts + 0.5:", "join keeps short-time points beyond the first long-time point"),
    ("C16", "shape.py", "if ((py == v1y) and (v2y >= v1y)) or ((py == v2y) and (v1y >= v2y)):", "if ((py == v1y) and (v2y <= v1y)) or ((py == v2y) and (v1y >= v2y)):", "half-open vertex rule inverted"),
    ("C04", "feature_recognition.py", "(on_edge in boundary_results and not keep_contour)", "(on_edge in boundary_results and keep_contour)", "remove_cutout contour flag inverted"),
    ("C03", "domains.py", "            r = rectangle(num_borehole, n_2, b, b)\n            if disp:", "            r = rectangle(n_2, num_borehole, b, b)\n            if disp:", "rectangular(): rows and columns swapped"),
    ("C20", "search_routines.py", "            v_flow_borehole = self.V_flow / len(coordinates)\n            m_flow_borehole = v_flow_borehole / 1000.0 * rho\n        else:\n            raise ValueError(\"The flow argument should be either `borehole`\" \"or `system`.\")\n        return v_flow_system, m_flow_borehole\n\n    def initialize_ghe(self, coordinates, h, field_specifier=\"N/A\"):\n        v_flow_system, m_flow_borehole = self.retrieve_flow(coordinates, self.ghe.bhe.fluid.rho)",
     "            v_flow_borehole = self.V_flow\n            m_flow_borehole = v_flow_borehole / 1000.0 * rho\n        else:\n            raise ValueError(\"The flow argument should be either `borehole`\" \"or `system`.\")\n        return v_flow_system, m_flow_borehole\n\n    def initialize_ghe(self, coordinates, h, field_specifier=\"N/A\"):\n        v_flow_system, m_flow_borehole = self.retrieve_flow(coordinates, self.ghe.bhe.fluid.rho)", "SYSTEM flow not divided by the number of boreholes"),
    ("C17", "media.py", "'undisturbed_temp': self.ugt", "'undisturbed_temperature': self.ugt", "to_input key renamed"),
    ("C19", "output.py", "if year_hour_sum + hours_in_year[idx] - 1 >= hours_left:", "if year_hour_sum + hours_in_year[idx] >= hours_left:", "month label off by one at month ends"),
    ("C13", "ground_heat_exchangers.py", "            self.times = np.arange(1, n_hours + 1, 1)\n", "            if len(self.times) == 0:\n                self.times = np.arange(1, n_hours + 1, 1)\n", "hourly axis only built when empty"),
    ("C14", "rowwise.py", "        if len(hole) > max_l:", "        if len(hole) >= max_l:", "rotation sweep keeps the last maximum"),
    ("C15", "borehole_heat_exchangers.py", "(TWO_PI * self.pipe.k[1])", "(TWO_PI * self.pipe.k[0])", "coaxial outer pipe wall uses the inner pipe's conductivity"),
    ("C18", "validate.py", 'str(instance["fluid_name"]).upper()', 'str(instance.get("fluid_name", "Water")).upper()', "missing fluid_name defaulted before the schema check"),
    ("C02", "search_routines.py", "        if len(coordinates_domain) == 0:\n", "        if False:\n", "empty candidate domain no longer reported as ValueError (F23 returns)"),
    ("C07", "ground_loads.py", "            load_diff = self.monthly_peak_hl[i] - max(current_two_day_hl_load)\n", "", "extraction window scaled with the rejection window's load_diff (PeakScale)"),
]


def run() -> int:
    only = os.environ.get("SELFTEST_ONLY")
    ok = True
    for pid, fname, old, new, what in MUTATIONS:
        if only and pid not in only.split(","):
            continue
        d = Path(tempfile.mkdtemp(prefix="verif-selftest-"))
        try:
            shutil.copytree(REPO / "ghedesigner", d / "ghedesigner", ignore=shutil.ignore_patterns("tests", "__pycache__"))
            f = d / "ghedesigner" / fname
            s = f.read_text()
            if s.count(old) < 1:
                print(f"SELFTEST {pid}: mutation site not found in {fname} ({what})")
                ok = False
                continue
            f.write_text(s.replace(old, new, 1))
            env = dict(os.environ, VERIF_REPO=str(d), VERIF_NO_EVIDENCE="1", VERIF_TIER="quick")
            p = subprocess.run([str(VERIF / "check"), pid], env=env, capture_output=True, text=True, check=False)
            caught = p.returncode == 1 and "VIOLATION property=" + pid in p.stdout
            print(f"SELFTEST {pid}: {what}: {'caught' if caught else 'MISSED (exit %d)' % p.returncode}")
            ok = ok and caught
        finally:
            shutil.rmtree(d, ignore_errors=True)
    if not only:
        # a recorded real run is accepted by Search.tla; with one field corrupted or one event dropped it is rejected
        import copy  # noqa: PLC0415

        from . import corpus, steptrace  # noqa: PLC0415

        runs = [r for r in corpus.corpus("quick", 0) if r.get("steps") and len(r["steps"]["log"]) >= 6][:1]
        a = copy.deepcopy(runs[0])
        b = copy.deepcopy(runs[0])
        c = copy.deepcopy(runs[0])
        ev = next(e for e in b["steps"]["log"] if e["e"] == "eval" and e["h"] != b["steps"]["log"][0]["h"])
        ev["v"] = -ev["v"] if ev["v"] else 7
        del c["steps"]["log"][2]
        st = [v["status"] for v in steptrace.validate([a, b, c])]
        good = st[0] == "accepted" and st[1] != "accepted" and st[2] != "accepted"
        print(f"SELFTEST step-trace binding (real run accepted; sign-flipped excess / dropped event not accepted): {'ok' if good else 'FAILED'} {st}")
        ok = ok and good
    from . import p_equiv  # noqa: PLC0415

    good, verdicts = p_equiv.selfcheck_binding()
    print(f"SELFTEST trace binding (corrupted field / dropped event rejected): {'ok' if good else 'FAILED'} {verdicts}")
    ok = ok and good
    return 0 if ok else 1
