from functools import partial

from . import p_calendar, p_domains, p_equiv, p_history, p_hybrid, p_io, p_numeric, p_polygon, p_rowwise, p_search

REGISTRY = {
    "C01": partial(p_search.run, "C01"),
    "C02": partial(p_search.run, "C02"),
    "C05": partial(p_search.run, "C05"),
    "C12": partial(p_search.run, "C12"),
    "C20": partial(p_search.run, "C20"),
    "C06": partial(p_hybrid.run, "C06"),
    "C07": partial(p_hybrid.run, "C07"),
    "C08": partial(p_hybrid.run, "C08"),
    "C03": p_domains.run,
    "C09": p_numeric.run_c09,
    "C11": p_numeric.run_c11,
    "C13": p_history.run,
    "C14": p_rowwise.run,
    "C15": p_equiv.run,
    "C16": p_polygon.run_c16,
    "C17": p_io.run_c17,
    "C19": p_calendar.run_c19,
    "C18": p_io.run_c18,
    "C04": p_polygon.run_c04,
}
