"""C01 C02 C05 C12 C20 (and the C13 'oracle is a function' action property): Search.tla + B1 + B2."""
from __future__ import annotations

import json
import os
import random

from . import doubles, judge
from .core import Check, MachineryError, parallel_map, require_tlc_ok, run_tlc, tier
from .tla import tla, tla_set

# Defects of the pinned tree that are repaired in /repo by "fix:" commits; the model describes the repaired code.
FIXED = set(filter(None, os.environ.get("VERIF_FIXED", "F3,F8,F10,F13,F23").split(",")))

HMIN, HMAX = 60000, 120000
ROOTS = [77000, 115000]   # a low and a high bracketed root (high: within 5% of the maximum height)

INVS = {
    "C01": ["FinalExcessNonPositive", "SelFeasibleOrEscape"],
    "C02": ["HeightInBounds", "CapRespectedK", "UnmetPolicy1D", "UnmetPolicy", "UnmetPolicyRW", "OnlyValueError", "NeverUnreachable"],
    "C05": ["PredecessorFails", "FirstFeasibleIfMonotone", "NoLessDrillingEvaluated", "RootUnlessClamped"],
    "C12": ["ReportedIsLastSim", "LiveIsSelected"],
    "C20": ["FlowSplit"],
    "C13": [],
}
ACTIONS = {
    "1D": ["M_start", "S_cap", "S_e1", "S_e2", "S_e3", "S_branch", "S_loop", "S_extra", "S_pick", "S_ret", "M_size", "M_report"],
    "2D": ["M_start", "S_cap", "S_e1", "S_e2", "S_e3", "S_branch", "S_loop", "S_extra", "S_pick", "S_ret", "B_inner", "M_size", "M_report"],
    "ZD": ["M_start", "S_cap", "S_e1", "S_e2", "S_e3", "S_branch", "S_loop", "S_extra", "S_pick", "S_ret", "Z_outerdone",
           "Z_loop", "Z_after", "Z_rec", "Z_pick", "Z_final", "M_size", "M_report"],
    "RW": ["M_start", "R_gen", "R_bis", "R_tail", "R_one", "R_rem", "R_done", "M_size", "M_report"],
}


def nearsq(n):
    out = []
    for i in range(1, n + 1):
        k = (i + 1) // 2
        out.append(k * k if i % 2 == 1 else k * (k + 1))
    return out


def rect_like(n):
    # 1xk line, then n_min x j, then growing rectangles: strictly increasing like rectangular()'s lists
    base = [1, 2, 3, 4, 8, 12, 16, 20, 25, 30, 36, 42]
    return base[:n]


LISTS_A = [[1, 2, 4], [1, 3, 6]]
LISTS_B = [[1, 2, 3, 6], [1, 2, 4, 8], [1, 3, 6, 12]]
# every list that bi_rectangle_nested produces starts with the single-borehole field (Domains.tla: BiRectListsStartWithSingle); Bisection2D relies on
# it: an outer selection key 0 wraps to the LAST list (nested[-1]) and is only harmless because that list starts with the same field;
# the outer search also labels its fields with list 0's descriptors, so list 0 must have at least (number of lists + 1) entries
# (Domains.tla: BiRectFirstListLongEnough) - otherwise fieldDescriptors[x_r_idx] is an IndexError
LISTS_C = [[1, 2, 3, 4], [1, 2, 3, 4, 6], [1, 2, 4, 6, 9, 12]]
# very large fields: the total drilling of the first list exceeds the 99 999 m with which BisectionZD.search_successive starts its
# "previous drilling" (the loop then ends on its first pass)
LISTS_H = [[1, 450, 900], [1, 500, 1000]]
# a spacing window that admits no whole number of rows: empty candidate domain (F23)
EMPTY_1D = [[]]
EMPTY_NESTED = ([], [[]])
# bi-zoned domains are ONE list whose borehole count is a saw-tooth (line, L, U, C, then zoned rectangles per (n1, n2) pair)
LISTS_Z = [[1, 2, 3, 5, 4, 6, 9, 7, 8, 12]]
LISTS_Z2 = [[1, 2, 4, 3, 5], [2, 5, 4, 7, 6, 9]]


def model_runs(mode: str, t: str):
    """List of (label, configs, vals, maxiter, rw-params) TLC runs for a mode and tier."""
    runs = []
    flows = ("BOREHOLE", "SYSTEM")
    if mode == "1D":
        small = 8 if t == "quick" else 10
        cfgs = [
            {"lists": [nearsq(n)], "cap": c, "cont": ct, "flow": "BOREHOLE"}
            for n in range(1, small + 1)
            for c in [0] + list(range(2, nearsq(n)[-1] + 2))
            for ct in (False, True)
        ]
        cfgs += [{"lists": [rect_like(n)], "cap": c, "cont": True, "flow": "SYSTEM"} for n in (5, 8) for c in (0, 3, 4, 10)]
        cfgs += [{"lists": EMPTY_1D, "cap": c, "cont": ct, "flow": "BOREHOLE"} for c in (0, 3) for ct in (False, True)]
        runs.append(("1D-small-4val", cfgs, [-2, -1, 1, 2], 15, {}))
        big = (16, 33, 64) if t == "quick" else tuple(range(11, 65))
        cfgs = [
            {"lists": [nearsq(n)], "cap": c, "cont": ct, "flow": fl}
            for n in big
            for c in ([0, nearsq(n)[n // 2]] if t == "quick" else [0] + sorted({nearsq(n)[i] + 1 for i in range(0, n, max(1, n // 8))}))
            for ct in (False, True)
            for fl in (flows if t == "quick" else ("BOREHOLE",))
        ]
        runs.append(("1D-big-2val", cfgs, [-1, 1], 15, {}))
        if t == "thorough":
            cfgs = [{"lists": [nearsq(n)], "cap": 0, "cont": False, "flow": "BOREHOLE"} for n in (7, 12)]
            runs.append(("1D-6val", cfgs, [-3, -2, -1, 1, 2, 3], 15, {}))
    elif mode == "2D":
        cfgs = [{"lists": L, "cap": c, "cont": ct, "flow": "BOREHOLE"} for L in (LISTS_A, LISTS_B) for c in (0, 5) for ct in (False, True)]
        cfgs += [{"lists": L, "cap": 0, "cont": ct, "flow": "BOREHOLE"} for L in EMPTY_NESTED for ct in (False, True)]
        runs.append(("2D-4val", cfgs, [-2, -1, 1, 2], 15, {}))
        if t == "thorough":
            cfgs = [{"lists": L, "cap": c, "cont": ct, "flow": "SYSTEM"} for L in (LISTS_C,) for c in (0, 3, 7) for ct in (False, True)]
            runs.append(("2D-C-4val", cfgs, [-2, -1, 1, 2], 15, {}))
    elif mode == "ZD":
        cfgs = [{"lists": LISTS_A, "cap": c, "cont": ct, "flow": "BOREHOLE"} for c in (0, 5) for ct in (False, True)]
        cfgs += [{"lists": L, "cap": 0, "cont": ct, "flow": "BOREHOLE"} for L in EMPTY_NESTED for ct in (False, True)]
        runs.append(("ZD-A-4val", cfgs, [-2, -1, 1, 2], 15, {}))
        cfgs = [{"lists": LISTS_B, "cap": c, "cont": ct, "flow": "SYSTEM"} for c in (0, 7) for ct in (False, True)]
        cfgs += [{"lists": LISTS_H, "cap": 0, "cont": ct, "flow": "BOREHOLE"} for ct in (False, True)]
        runs.append(("ZD-B-2val", cfgs, [-1, 1], 15, {}))
        cfgs = [{"lists": LISTS_Z, "cap": c, "cont": ct, "flow": "BOREHOLE"} for c in (0, 8) for ct in (False, True)]
        runs.append(("ZD-sawtooth-4val", cfgs, [-3, -2, -1, 1], 15, {}))
        cfgs = [{"lists": LISTS_Z2, "cap": 0, "cont": ct, "flow": "BOREHOLE"} for ct in (False, True)]
        runs.append(("ZD-sawtooth2-3val", cfgs, [-2, -1, 1], 15, {}))
        if t == "thorough":
            cfgs = [{"lists": LISTS_B, "cap": 0, "cont": ct, "flow": "BOREHOLE"} for ct in (False, True)]
            runs.append(("ZD-B-4val", cfgs, [-2, -1, 1, 2], 15, {}))
    elif mode == "RW":
        cfgs = [{"lists": [], "cap": 0, "cont": ct, "flow": fl} for ct in (False, True) for fl in flows]
        runs.append(("RW-2val-dev1", cfgs, [-1, 1], 3, {"rwdev": 1, "rwcounts": (2, 3)}))
        runs.append(("RW-4val-dev0", cfgs[:2], [-2, -1, 1, 2], 3, {"rwdev": 0, "rwcounts": (2, 3, 5)}))
        if t == "thorough":
            runs.append(("RW-4val-dev1", cfgs[:2], [-2, -1, 1, 2], 3, {"rwdev": 1, "rwcounts": (2, 3)}))
            runs.append(("RW-2val-dev2-it4", cfgs[:2], [-1, 1], 4, {"rwdev": 2, "rwcounts": (2, 4), "rwgrid": 16}))
    return runs


def mc_module(mode, configs, vals, maxiter, fixed, rwgrid=8, rwcounts=(2, 3), rwtail=11, rwdev=1, minvals=(-1, 1), roots=ROOTS):
    mod = f"""---- MODULE MC_Search ----
EXTENDS Search
c_Configs == {tla_set(configs)}
c_Vals == {tla(set(vals))}
c_MinVals == {tla(set(minvals))}
c_Roots == {tla(set(roots))}
c_RWCounts == {tla(set(rwcounts))}
c_Fixed == {tla(set(fixed))}
====
"""
    consts = f"""CONSTANTS
 Mode = "{mode}"
 Configs <- c_Configs
 Vals <- c_Vals
 MinVals <- c_MinVals
 RootLevels <- c_Roots
 MaxIter = {maxiter}
 Hmin = {HMIN}
 Hmax = {HMAX}
 RWGrid = {rwgrid}
 RWCounts <- c_RWCounts
 RWTail = {rwtail}
 RWDev = {rwdev}
 RWMonotone = TRUE
 Fixed <- c_Fixed
"""
    return mod, consts


def last_state(stdout: str) -> str:
    parts = stdout.split("\nState ")
    if len(parts) < 2:
        return stdout[-2500:]
    st = parts[-1].split("\n\n")[0]
    # compact the log
    return "\n".join(st.splitlines()[:120])


def check_models(chk: Check, pid: str, fixed=None, modes=("1D", "2D", "ZD", "RW"), extra_invs=(), zero_degenerate=True):
    """Exhaustive TLC runs of Search.tla for the invariants of one property. Returns list of violations found."""
    fixed = FIXED if fixed is None else fixed
    t = tier()
    invs = [i for i in INVS[pid] if i != "FlowSplit"] + list(extra_invs)
    found = []
    for mode in modes:
        for label, cfgs, vals, maxiter, rwp in model_runs(mode, t):
            mod, consts = mc_module(mode, cfgs, vals, maxiter, fixed, **rwp)
            cfg = "INIT Init\nNEXT Next\nCHECK_DEADLOCK FALSE\nALIAS Alias\n" + consts
            cfg += "".join(f"INVARIANT {i}\n" for i in invs)
            if pid == "C13":
                cfg += "PROPERTY SameFieldSameAnswer\n"
            res = run_tlc("MC_Search", cfg, extra_modules={"MC_Search.tla": mod}, coverage=True, want_prints=False, timeout=3000)
            chk.add_tlc(res)
            chk.count("tlc_runs")
            chk.extra.setdefault("model_runs", []).append(
                {"run": label, "mode": mode, "configs": len(cfgs), "vals": vals, "states": res.distinct, "depth": res.depth, "wall_s": round(res.wall_s, 1)}
            )
            if res.violated:
                found.append({"run": label, "mode": mode, "invariant": res.violated, "state": last_state(res.stdout)})
                continue
            require_tlc_ok(res, f"Search {label}")
            # vacuity: every action of the mode was taken
            for a in ACTIONS[mode]:
                c = res.coverage.get(a)
                if not c or c[1] == 0:
                    raise MachineryError(f"vacuity: action {a} never taken in run {label}")
            if res.coverage.get("S_branch") and mode != "RW":
                pass
    if zero_degenerate and pid == "C02":
        # the degenerate configuration: an evaluation may return exactly 0 (sign() divides by zero)
        cfgs = [{"lists": [nearsq(n)], "cap": 0, "cont": ct, "flow": "BOREHOLE"} for n in (1, 2, 4) for ct in (False, True)]
        mod, consts = mc_module("1D", cfgs, [-1, 0, 1], 15, fixed, minvals=(-1, 0, 1))
        cfg = "INIT Init\nNEXT Next\nCHECK_DEADLOCK FALSE\nALIAS Alias\n" + consts + "".join(f"INVARIANT {i}\n" for i in invs)
        res = run_tlc("MC_Search", cfg, extra_modules={"MC_Search.tla": mod}, coverage=True, want_prints=False)
        chk.add_tlc(res)
        if res.violated:
            found.append({"run": "1D-zero", "mode": "1D", "invariant": res.violated, "state": last_state(res.stdout)})
        else:
            require_tlc_ok(res, "Search 1D-zero")
    return found


def liveness(chk: Check, fixed=None):
    """Terminates: <>(pc = Done) under weak fairness, no state constraint."""
    fixed = FIXED if fixed is None else fixed
    out = []
    for mode, cfgs, vals, mi, rwp in [
        ("1D", [{"lists": [nearsq(n)], "cap": c, "cont": ct, "flow": "BOREHOLE"} for n in (1, 2, 5, 9) for c in (0, 3) for ct in (False, True)], [-1, 1], 15, {}),
        ("ZD", [{"lists": LISTS_A, "cap": 0, "cont": ct, "flow": "BOREHOLE"} for ct in (False, True)], [-1, 1], 15, {}),
        ("RW", [{"lists": [], "cap": 0, "cont": ct, "flow": "BOREHOLE"} for ct in (False, True)], [-1, 1], 3, {"rwdev": 0}),
    ]:
        mod, consts = mc_module(mode, cfgs, vals, mi, fixed, **rwp)
        cfg = "SPECIFICATION Spec\nCHECK_DEADLOCK FALSE\n" + consts + "PROPERTY Terminates\n"
        res = run_tlc("MC_Search", cfg, extra_modules={"MC_Search.tla": mod}, want_prints=False, timeout=1200)
        chk.add_tlc(res)
        if res.violated:
            out.append({"run": f"live-{mode}", "mode": mode, "invariant": "Terminates", "state": last_state(res.stdout)})
        else:
            require_tlc_ok(res, f"liveness {mode}")
    return out


# ------------------------------------------------------------------------------------------------
# B1: generate behaviours and replay them
# ------------------------------------------------------------------------------------------------
def gen_runs(t: str):
    runs = []
    flows = ("BOREHOLE", "SYSTEM")
    n1 = 7 if t == "quick" else 9
    cfgs = [{"lists": [nearsq(n)], "cap": c, "cont": ct, "flow": fl} for n in range(1, n1 + 1) for c in (0, 2, 5, 7) for ct in (False, True) for fl in flows]
    cfgs += [{"lists": EMPTY_1D, "cap": c, "cont": ct, "flow": "BOREHOLE"} for c in (0, 3) for ct in (False, True)]
    runs.append(("1D", "g1D-small", cfgs, [-2, -1, 1, 2], 15, {}))
    cfgs = [{"lists": [nearsq(n)], "cap": c, "cont": ct, "flow": "BOREHOLE"} for n in (16, 64) for c in (0, nearsq(n)[n // 2]) for ct in (False, True)]
    runs.append(("1D", "g1D-big", cfgs, [-1, 1], 15, {}))
    cfgs = [{"lists": [rect_like(8)], "cap": c, "cont": True, "flow": "SYSTEM"} for c in (0, 4)]
    runs.append(("1D", "g1D-rect", cfgs, [-2, -1, 1, 2], 15, {}))
    cfgs = [{"lists": [nearsq(n)], "cap": 0, "cont": ct, "flow": "BOREHOLE"} for n in (1, 2, 4) for ct in (False, True)]
    runs.append(("1D", "g1D-zero", cfgs, [-1, 0, 1], 15, {"minvals": (-1, 0, 1)}))
    cfgs = [{"lists": L, "cap": c, "cont": ct, "flow": "BOREHOLE"} for L in ((LISTS_A,) if t == "quick" else (LISTS_A, LISTS_B)) for c in (0, 5) for ct in (False, True)]
    cfgs += [{"lists": L, "cap": 0, "cont": ct, "flow": "BOREHOLE"} for L in EMPTY_NESTED for ct in (False, True)]
    runs.append(("2D", "g2D", cfgs, [-2, -1, 1, 2], 15, {}))
    cfgs = [{"lists": LISTS_A, "cap": c, "cont": ct, "flow": "SYSTEM"} for c in (0, 5) for ct in (False, True)]
    cfgs += [{"lists": L, "cap": 0, "cont": ct, "flow": "SYSTEM"} for L in EMPTY_NESTED for ct in (False, True)]
    runs.append(("ZD", "gZD-A", cfgs, [-2, -1, 1, 2] if t == "thorough" else [-2, -1, 1], 15, {}))
    cfgs = [{"lists": LISTS_B, "cap": 0, "cont": ct, "flow": "BOREHOLE"} for ct in (False, True)]
    cfgs += [{"lists": LISTS_H, "cap": 0, "cont": ct, "flow": "BOREHOLE"} for ct in (False, True)]
    runs.append(("ZD", "gZD-B", cfgs, [-1, 1], 15, {}))
    cfgs = [{"lists": LISTS_Z, "cap": c, "cont": ct, "flow": "BOREHOLE"} for c in (0, 8) for ct in (False, True)]
    runs.append(("ZD", "gZD-sawtooth", cfgs, [-3, -2, -1, 1], 15, {}))   # three distinct negative values: untied triples
    cfgs = [{"lists": LISTS_Z2, "cap": 0, "cont": ct, "flow": "BOREHOLE"} for ct in (False, True)]
    runs.append(("ZD", "gZD-sawtooth2", cfgs, [-2, -1, 1], 15, {}))
    cfgs = [{"lists": [], "cap": 0, "cont": ct, "flow": fl} for ct in (False, True) for fl in flows]
    runs.append(("RW", "gRW", cfgs, [-1, 1], 3, {"rwdev": 1}))
    runs.append(("RW", "gRW4", cfgs[:2], [-2, -1, 1, 2], 3, {"rwdev": 0, "rwcounts": (2, 3, 5)}))
    return runs


def _replay_one(b):
    """-> (conformance mismatches, code outcome, {invariant: bool} judged on the CODE's own run, bad log rows)"""
    try:
        rec = doubles.run_behaviour(b, max_iter=b.get("max_iter"))
        mm = doubles.compare(b, rec)
        if rec["out"]["k"] == "diverge":
            return (mm, rec["out"], {}, [])
        verdict = judge.judge(b["mode"], b["cfg"], rec["oracle"], rec)
        rows = judge.judge_rows(rec["rows"])
        verdict["LogRowConsistent"] = not rows
        out = rec["out"]
        if rec["extended"]:
            # the code asked questions this behaviour never asked: explore the other answers too (bounded)
            queue = []
            for key, opts in rec["oracle"].new_keys:
                for o in opts[1:]:
                    queue.append({key: o})
            runs = 0
            while queue and runs < 24:
                ext = queue.pop(0)
                runs += 1
                r2 = doubles.run_behaviour(b, max_iter=b.get("max_iter"), ext=ext)
                if r2["out"]["k"] == "diverge":
                    continue
                v2 = judge.judge(b["mode"], b["cfg"], r2["oracle"], r2)
                v2["LogRowConsistent"] = not judge.judge_rows(r2["rows"])
                for name, tv in v2.items():
                    if tv is False and verdict.get(name) is not False:
                        verdict[name] = False
                        out = dict(r2["out"], oracle_extension={str(k): x for k, x in ext.items()})
                for key, opts in r2["oracle"].new_keys:
                    for o in opts[1:]:
                        e2 = dict(ext)
                        e2[key] = o
                        queue.append(e2)
        return (mm, out, verdict, rows)
    except MachineryError:
        raise
    except Exception as ex:  # noqa: BLE001
        import traceback  # noqa: PLC0415

        return ([f"harness exception {type(ex).__name__}: {ex} {traceback.format_exc()[-600:]}"], None, {}, [])


def generate_and_replay(chk: Check, invs: list[str], fixed=None, sample_cap: int | None = None):
    """Replay TLC behaviours into the real code.
    Returns (replayed, drift, violations): drift = runs where the code left the model's event sequence although the
    judged property still held on the code's own run; violations = runs on which an invariant of `invs` is false."""
    fixed = FIXED if fixed is None else fixed
    t = tier()
    rnd = random.Random(chk.seed)
    mismatches = []
    violations = []
    total = 0
    for mode, label, cfgs, vals, maxiter, rwp in gen_runs(t):
        mod, consts = mc_module(mode, cfgs, vals, maxiter, fixed, **rwp)
        cfg = "INIT Init\nNEXT Next\nCHECK_DEADLOCK FALSE\n" + consts + "INVARIANT Emit\n"
        res = run_tlc("MC_Search", cfg, extra_modules={"MC_Search.tla": mod}, workers=1, timeout=3000)
        require_tlc_ok(res, f"gen {label}")
        chk.add_tlc(res)
        behs = res.prints
        if not behs:
            raise MachineryError(f"generator run {label} printed no behaviour")
        cap = sample_cap or (6000 if t == "quick" else 60000)
        if len(behs) > cap:
            behs = rnd.sample(behs, cap)
        for b in behs:
            b["rwgrid"] = rwp.get("rwgrid", 8)
            b["max_iter"] = maxiter if mode == "RW" else None
        results = parallel_map(_replay_one, behs, chunksize=64)
        total += len(behs)
        for b, (mm, out, verdict, _rows) in zip(behs, results):
            key = (mode, b["branch"], b["outcome"]["k"], b["outcome"].get("type"), b["escape"], len(b["log"]))
            chk.nontrivial.add(key)
            falses = [i for i in invs if verdict.get(i) is False]
            if verdict.get("F16_seen") and "CapRespectedK" in invs:
                chk.violation("F16 on real code", None, known_key="F16")
            info = {"run": label, "mode": mode, "cfg": b["cfg"], "mismatch": mm, "false_invariants": falses,
                    "model_events": [(e["e"], e["f"], e.get("h"), e.get("v", e.get("oc"))) for e in b["log"]],
                    "model_outcome": b["outcome"], "code_outcome": out, "memo": b["memo"], "max_iter": b.get("max_iter"),
                    "rwgrid": b["rwgrid"]}
            if mm and any("harness exception" in m for m in mm):
                raise MachineryError(mm[0])
            if falses or (mm and not verdict):
                violations.append(info)
            elif mm:
                mismatches.append(info)
        chk.extra.setdefault("gen_runs", []).append({"run": label, "mode": mode, "behaviours": len(res.prints), "replayed": len(behs)})
        if behs:
            b = behs[0]
            chk.sample({"mode": mode, "cfg": b["cfg"], "events": [(e["e"], e["f"], e.get("h"), e.get("v", e.get("oc"))) for e in b["log"]][:12], "outcome": b["outcome"]})
    chk.traces += total
    chk.evaluations += total
    return total, mismatches, violations


def crosscheck_mirrors(chk: Check):
    """The Python mirrors of the invariants must agree with TLC on the model's own behaviours - checked on the model
    of the UNREPAIRED code (Fixed = {}), where the invariants are false on some behaviours, so both truth values occur."""
    n = 0
    seen_false = set()
    for mode, label, cfgs, vals, maxiter, rwp in [
        ("1D", "x1D", [{"lists": [nearsq(n)], "cap": c, "cont": ct, "flow": "BOREHOLE"} for n in (2, 4, 5) for c in (0, 5) for ct in (False, True)], [-2, -1, 1, 2], 15, {}),
        ("ZD", "xZD", [{"lists": LISTS_A, "cap": 0, "cont": ct, "flow": "BOREHOLE"} for ct in (False, True)], [-2, -1, 1], 15, {}),
        ("ZD", "xZDz", [{"lists": LISTS_Z, "cap": 8, "cont": True, "flow": "BOREHOLE"}], [-2, -1, 1], 15, {}),
        ("RW", "xRW", [{"lists": [], "cap": 0, "cont": ct, "flow": "BOREHOLE"} for ct in (False, True)], [-1, 1], 3, {"rwdev": 1}),
    ]:
        mod, consts = mc_module(mode, cfgs, vals, maxiter, set(), **rwp)
        cfg = "INIT Init\nNEXT Next\nCHECK_DEADLOCK FALSE\n" + consts + "INVARIANT Emit\n"
        res = run_tlc("MC_Search", cfg, extra_modules={"MC_Search.tla": mod}, workers=1, timeout=3000)
        require_tlc_ok(res, f"crosscheck {label}")
        chk.add_tlc(res)
        doubles.MODE = mode
        for b in res.prints:
            ora = doubles.Oracle(b["memo"], lenient=False)
            ver = judge.judge(mode, b["cfg"], ora, judge.record_of_model(b))
            for name, tv in b["inv"].items():
                if name == "CapRespected" and ver.get("_cap_equal"):
                    continue      # the property allows count = cap, the model's selection rule never produces it
                if name == "Known_F16":
                    if ver["F16_seen"] != (tv and not b["inv"]["CapRespected"]):
                        raise MachineryError(f"mirror of Known_F16 disagrees with TLC on {json.dumps(b)[:1200]}")
                    continue
                if name in ver and ver[name] != tv:
                    raise MachineryError(f"mirror of {name} disagrees with TLC ({ver[name]} vs {tv}) on {json.dumps(b)[:1500]}")
                if not tv:
                    seen_false.add(name)
            n += 1
    chk.note("mirror_crosscheck", {"behaviours": n, "invariants_seen_false": sorted(seen_false)})
    need = {"NoLessDrillingEvaluated", "ReportedIsLastSim", "OnlyValueError", "UnmetPolicy"}
    if not need <= seen_false:
        raise MachineryError(f"mirror cross-check is vacuous: never saw a false value of {sorted(need - seen_false)}")
    return n


def b2_real_runs(chk: Check, pid: str):
    """B2: real end-to-end runs (real physics) recorded by external wrappers and validated in one batch by TLC (SystemTrace.tla)."""
    from . import corpus  # noqa: PLC0415

    if pid not in ("C01", "C02", "C05", "C12", "C20"):
        return
    runs = corpus.corpus(tier(), chk.seed)
    verdicts, res = corpus.validate(runs)
    chk.add_tlc(res)
    judged = skipped_nan = 0
    kinds = {}
    for i, r in enumerate(runs, start=1):
        d = r["desc"]
        if d.get("report_exception") and pid in ("C02", "C12"):
            chk.violation(f"{pid}: real {d.get('method')} run {d.get('id')} found a design and then failed while reporting it: {d['report_exception']}", d)
        if d.get("harness_exception"):
            raise MachineryError(f"corpus run {d.get('id')} failed in the harness: {d['harness_exception']}")
        if d.get("nan_in_eft"):
            skipped_nan += 1      # overlapping peak windows -> log of a negative time: the tool's temperatures are NaN (observation F19); not judged
            continue
        judged += 1
        out = next((e for e in r["events"] if e["e"] == "Outcome"), {"kind": "none"})
        kinds[(d["method"], out["kind"])] = kinds.get((d["method"], out["kind"]), 0) + 1
        for clause in sorted(verdicts[i]):
            if clause == "known:F16":
                if pid == "C02":
                    chk.violation("F16 on a real run", None, known_key="F16")
            elif clause.startswith("assume."):
                chk.count("b2_" + clause.replace(".", "_") + "_not_met")
            elif clause.startswith(pid + ".") or clause.startswith("trace."):
                chk.violation(f"{pid}: real {d['method']} run (pipe {d['pipe']}, flow {d['flow']}, regime {d['regime']}, {d['months']} months, seed {d['seed']}): {clause}",
                              {"scenario": d, "failed": sorted(verdicts[i]), "events": r["events"][:60]})
    # step by step: is the recorded real run a behaviour of Search.tla (with the run's own numbers as the oracle)?
    from . import steptrace  # noqa: PLC0415

    usable = [r for r in runs if not r["desc"].get("nan_in_eft")]
    stat = {"accepted": 0, "rejected": 0, "skipped": 0, "property": 0, "error": 0}
    inv_owner = {i: p for p, lst in INVS.items() for i in lst}
    inv_owner.update({"LiveIsSelected": "C12", "NeverUnreachable": "C02"})
    for r, v in zip(usable, steptrace.validate(usable)):
        stat[v["status"]] += 1
        d = r["desc"]
        if v["status"] == "error":
            raise MachineryError(f"step validation of real run {d.get('id')} failed: {v['error']}")
        if v["status"] == "property" and inv_owner.get(v["invariant"]) == pid:
            chk.violation(f"{pid}: real {d['method']} run (seed {d['seed']}, regime {d['regime']}) violates Search.tla invariant {v['invariant']} with its own numbers",
                          {"scenario": d, "invariant": v["invariant"], "state": v["state"], "steps": r["steps"]})
        if v["status"] == "rejected":
            chk.note("b2_step_rejected_sample", {"scenario": d, "matched_depth": v["depth"], "events": v["events"]})
            print(f"NOTE: the real {d['method']} run (seed {d['seed']}) is not a behaviour of Search.tla (matched {v['depth']} states of {v['events']} events): conformance drift")
    chk.note("b2_step_validation", stat)
    if stat["accepted"] + stat["property"] + stat["rejected"] < 10:
        raise MachineryError(f"step validation covered too few real runs: {stat}")
    chk.traces += judged
    chk.note("b2_real_runs_validated", judged)
    chk.note("b2_real_runs_not_judged_nan_temperatures", skipped_nan)
    chk.note("b2_outcomes", {f"{k[0]}:{k[1]}": v for k, v in sorted(kinds.items())})
    if judged < 12:
        raise MachineryError(f"only {judged} real runs could be judged")
    ev = next(r for r in runs if not r["desc"].get("nan_in_eft"))
    chk.sample({"real_run": ev["desc"], "events": [{k: v for k, v in e.items()} for e in ev["events"][:5]]})


def _file_policy_case(case):
    """One run of the documented input-file entry point (the command-line worker) - the unmet-design policy and the borehole cap
    are user inputs of that file too."""
    import contextlib  # noqa: PLC0415
    import io  # noqa: PLC0415
    import json  # noqa: PLC0415
    import shutil  # noqa: PLC0415
    import tempfile  # noqa: PLC0415
    import warnings  # noqa: PLC0415
    from pathlib import Path  # noqa: PLC0415

    from .core import BUILD, import_repo  # noqa: PLC0415
    from .p_io import base_input  # noqa: PLC0415

    import_repo()
    import ghedesigner.manager as gm  # noqa: PLC0415

    load, cont, cap = case["load"], case["cont"], case["cap"]
    d = base_input()
    d["loads"]["ground_loads"] = [float(load)] * 8760
    if cont:
        d["design"]["continue_if_design_unmet"] = True
    if cap:
        d["design"]["max_boreholes"] = cap
    tmp = Path(tempfile.mkdtemp(prefix="c02file-", dir=BUILD))
    try:
        f = tmp / "in.json"
        f.write_text(json.dumps(d))
        try:
            with warnings.catch_warnings(), contextlib.redirect_stdout(io.StringIO()), contextlib.redirect_stderr(io.StringIO()):
                warnings.simplefilter("ignore")
                rc = gm._run_manager_from_cli_worker(f, tmp / "out")
            exc = None
        except Exception as ex:  # noqa: BLE001
            rc, exc = None, f"{type(ex).__name__}: {ex}"[:160]
        summ = None
        if (tmp / "out" / "SimulationSummary.json").exists():
            summ = json.loads((tmp / "out" / "SimulationSummary.json").read_text())
        what = f"input file with constant load {load:g} W, continue_if_design_unmet={cont}, max_boreholes={cap}"
        hmax, hmin = d["geometric_constraints"]["max_height"], d["geometric_constraints"]["min_height"]
        if not cont:
            if summ is not None and rc == 0:
                return f"{what}: a design was reported although no candidate meets the limits and continuing was not requested"
            if exc is not None and not exc.startswith("ValueError"):
                return f"{what}: ended with {exc}, not a ValueError"
            return None
        if exc is not None or rc != 0 or summ is None:
            return f"{what}: no design returned ({exc or 'status ' + str(rc)}) although the user asked to continue"
        h = summ["ghe_system"]["active_borehole_length"]["value"]
        n = summ["ghe_system"]["number_of_boreholes"]
        rows = summ["design_selection_search_log"]["data"]
        counts = []
        for r in rows:
            try:
                a, b = str(r[0]).upper().split("X")
                counts.append(int(a) * int(b))
            except ValueError:
                pass
        counts = counts or [n]
        if abs(load) > 1000.0:
            if abs(h - hmax) > 1e-6:
                return f"{what}: returned height {h} m is not the maximum height {hmax} m"
            if cap and n > cap:
                return f"{what}: returned {n} boreholes, more than the cap"
            if not cap and n != max(counts):
                return f"{what}: returned {n} boreholes, not the largest candidate evaluated ({max(counts)})"
        else:
            if abs(h - hmin) > 1e-6 or n != 1:
                return f"{what}: returned {n} boreholes x {h} m, not the single borehole at the minimum height {hmin} m"
        return None
    finally:
        shutil.rmtree(tmp, ignore_errors=True)


def file_policy(chk: Check):
    from .core import parallel_map  # noqa: PLC0415

    cases = [{"load": 5.0e6, "cont": True, "cap": 0}, {"load": 10.0, "cont": True, "cap": 0}, {"load": 5.0e6, "cont": False, "cap": 0},
             {"load": 5.0e6, "cont": True, "cap": 6}, {"load": -5.0e6, "cont": True, "cap": 0}]
    for c, bad in zip(cases, parallel_map(_file_policy_case, cases, chunksize=1)):
        chk.traces += 1
        chk.evaluations += 1
        if bad:
            chk.violation(f"C02 (input-file entry point): {bad}", {"case": c})
    chk.note("input_file_policy_runs", len(cases))


def run(pid: str) -> int:
    chk = Check(pid)
    invs = INVS[pid] + (["LogRowConsistent"] if pid == "C12" else [])
    chk.rule = ("TLC enumerates every configuration x lazily-chosen oracle of Search.tla within the stated bounds; each terminal "
                "behaviour is replayed into the real search classes; non-trivial = distinct (mode, branch, outcome kind, exception type, "
                "escape, number of events)")
    chk.trusted = ["physics doubles (harness/doubles.py): oracle simulate(), recorder g-function, RowWise field generator double",
                   "scipy.optimize.brentq", "TLC 1.8.0"]
    chk.assumptions = ["SizingAgreesAtHmax: the excess seen by the search at maximum height equals what sizing sees there (checked on real traces, B2)",
                       "oracle ties (bit-identical excess of different fields) are replayed for conformance but not judged (NoTies)"]
    found = check_models(chk, pid)
    if pid == "C02":
        found += liveness(chk)
        file_policy(chk)
    for f in found:
        chk.violation(f"Search.tla invariant {f['invariant']} violated in run {f['run']}", f)
    crosscheck_mirrors(chk)
    if pid == "C12":
        from . import p_proof  # noqa: PLC0415

        p_proof.hourly_report(chk)
    if pid == "C05":
        from . import p_proof  # noqa: PLC0415

        p_proof.run_for(chk)      # unbounded list length: TLAPS proof of the bisection loop + TLC refinement Search.tla => BisectProof.tla
    # judged on the code's own run only (no counterpart in the bounded model: Search.tla does not model rotations)
    mirror_only = {"C01": ["SameGeneratorArguments"], "C14": ["SameGeneratorArguments"]}
    total, drift, viol = generate_and_replay(chk, invs + mirror_only.get(pid, []))
    for v in viol[:10]:
        chk.violation(f"{pid}: real code violates {v['false_invariants'] or v['mismatch'][:1]} on TLC behaviour (mode {v['mode']}, cfg {v['cfg']})", v)
    b2_real_runs(chk, pid)
    if pid == "C20":
        from .p_io import wiring  # noqa: PLC0415

        wiring(chk)
    chk.note("conformance_drift", len(drift))
    if drift:
        chk.note("conformance_drift_sample", drift[0]["mismatch"][:3])
        print(f"NOTE: {len(drift)} replayed behaviour(s) left the model's event sequence although {pid}'s predicates hold on the code's own run; "
              f"the exhaustive model verdict does not transfer to them (first: {drift[0]['mismatch'][:1]})")
    chk.exhaustive = True
    return chk.finish()
