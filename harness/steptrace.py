"""B2, step by step: the event sequence of a REAL design run (real physics) is validated against the actions of Search.tla.

For every recorded run a small module MC_SearchTrace is generated: the configuration is the run's real candidate lists, the
oracle value sets are the values the run observed, and the recorded events are a constant sequence TraceEv. TLC explores the
behaviours of Search.tla whose `log` is a prefix of TraceEv (CONSTRAINT PrefixOK); the run is accepted when a behaviour reaches
Done with the whole trace consumed and the same outcome (INVARIANT NotAccepted is then violated). Every property invariant of the
model is evaluated on the way with the run's real numbers (micro-kelvin, millimetres).
"""
from __future__ import annotations

from .core import MachineryError, parallel_map, run_tlc
from .p_search import FIXED, mc_module
from .tla import tla

MODE = {"NEARSQUARE": "1D", "RECTANGLE": "1D", "BIRECTANGLE": "2D", "BIZONEDRECTANGLE": "ZD", "BIRECTANGLECONSTRAINED": "ZD", "ROWWISE": "RW"}

PROP_INVS = ["FinalExcessNonPositive", "HeightInBounds", "CapRespectedK", "OnlyValueError", "NeverUnreachable", "RootUnlessClamped", "ReportedIsLastSim", "LiveIsSelected",
             "PredecessorFails", "NoLessDrillingEvaluated", "UnmetPolicyRW"]


def code_of(f):
    if f[0] == "one":
        return 0
    if f[0] == "r":
        return f[1]
    if f[0] == "s":
        return f[1] * 16 + f[2] + 1
    return f[0] * 8 + f[1]


def build_case(run):
    """-> (module text, cfg text) or None when the run cannot be expressed (RowWise, harness problems)."""
    d = run["desc"]
    st = run.get("steps")
    if not st or d["method"] not in MODE or d.get("nan_in_eft"):
        return None
    cfg = next(e for e in run["events"] if e["e"] == "Configure")
    lists = st["lists"]
    rwmode = d["method"] == "ROWWISE"
    if rwmode:
        if st.get("rw_tail") or not st.get("rw_counts"):
            return None          # the spacing-bisection branch (exhaustive tail with non-dyadic spacings) is not expressed here
    elif not lists or any(len(l) == 0 for l in lists):
        return None
    vals = {e["v"] for e in st["log"] if e["e"] == "eval" and e["h"] == cfg["Hmax_mm"]} | {e["hi"] for e in st["log"] if e["e"] == "size"}
    minvals = {e["v"] for e in st["log"] if e["e"] == "eval" and e["h"] == cfg["Hmin_mm"]} | {e["lo"] for e in st["log"] if e["e"] == "size"} | {1, -1}
    roots = {e["h"] - code_of(e["f"]) for e in st["log"] if e["e"] == "size" and e["oc"] == "Bracketed"} or {cfg["Hmin_mm"] + 1000}
    if not vals:
        return None
    conf = {"lists": lists if not rwmode else [], "cap": cfg["cap"], "cont": cfg["cont"], "flow": cfg["flow"]}
    if rwmode:
        mod, consts = mc_module("RW", [conf], sorted(vals), 10, FIXED, minvals=sorted(minvals), roots=sorted(roots), rwgrid=1024, rwcounts=tuple(st["rw_counts"]), rwtail=11, rwdev=11)
    else:
        mod, consts = mc_module(MODE[d["method"]], [conf], sorted(vals), 15, FIXED, minvals=sorted(minvals), roots=sorted(roots))
    consts = consts.replace(" Hmin = 60000\n", f" Hmin = {cfg['Hmin_mm']}\n").replace(" Hmax = 120000\n", f" Hmax = {cfg['Hmax_mm']}\n")
    ev = []
    for e in st["log"]:
        r = {"e": e["e"], "f": tuple(e["f"])}
        if e["e"] in ("eval", "init"):
            r["h"] = e["h"]
        if e["e"] == "eval":
            r["v"] = e["v"]
        if e["e"] == "size":
            r["oc"] = e["oc"]
            r["h"] = e["h"]
        ev.append(r)
    out = st["outcome"]
    tout = {"k": out["k"], "f": tuple(out.get("f") or ((0, 0) if not rwmode else ("one",))), "type": out.get("type", "")}
    extra = f"""
TraceEv == {tla(ev)}
TraceOutcome == {tla(tout)}
Match(a, b) == /\\ a.e = b.e /\\ a.f = b.f
               /\\ (a.e \\in {{"eval", "init"}} => a.h = b.h)
               /\\ (a.e = "eval" => a.v = b.v)
               /\\ (a.e = "size" => a.oc = b.oc /\\ a.h = b.h)
PrefixOK == Len(log) <= Len(TraceEv) /\\ \\A i \\in 1..Len(log) : Match(log[i], TraceEv[i])
NotAccepted == ~(/\\ pc = "Done" /\\ Len(log) = Len(TraceEv) /\\ outcome.k = TraceOutcome.k
                 /\\ (outcome.k = "sel" => outcome.f = TraceOutcome.f)
                 /\\ (outcome.k = "raise" => outcome.type = TraceOutcome.type))
Progress == PrintT(<<"PREFIX", Len(log)>>)
====
"""
    mod = mod.replace("====\n", extra, 1).replace("MODULE MC_Search ", "MODULE MC_SearchTrace ")
    cfgt = "INIT Init\nNEXT Next\nCHECK_DEADLOCK FALSE\nALIAS Alias\n" + consts.replace(" RWMonotone = TRUE", " RWMonotone = FALSE") + "CONSTRAINT PrefixOK\nINVARIANT NotAccepted\n" + "".join(f"INVARIANT {i}\n" for i in PROP_INVS)
    return mod, cfgt


def _validate_one(run):
    case = build_case(run)
    if case is None:
        return {"status": "skipped"}
    mod, cfgt = case
    res = run_tlc("MC_SearchTrace", cfgt, extra_modules={"MC_SearchTrace.tla": mod}, workers=1, want_prints=False, timeout=900, java_heap="2g")
    if res.violated == "NotAccepted":
        return {"status": "accepted", "states": res.distinct, "gen": res.generated}
    if res.violated:
        return {"status": "property", "invariant": res.violated, "state": res.stdout.split("\nState ")[-1][:2500], "states": res.distinct, "gen": res.generated}
    if res.ok:
        # no behaviour of the model reproduces the recorded run: how far did it get?
        depth = res.depth
        return {"status": "rejected", "depth": depth, "events": len(run["steps"]["log"]), "states": res.distinct, "gen": res.generated}
    return {"status": "error", "error": (res.error or res.stdout[-800:])[:800]}


def validate(runs):
    return parallel_map(_validate_one, runs)
