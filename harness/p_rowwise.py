"""C14: RowWiseSweep.tla + replay of the sweep with a count oracle + closed-form lattice + random convex lots with a watchdog."""
from __future__ import annotations

import contextlib
import io
import math
import random
import signal
import warnings

from .core import Check, MachineryError, import_repo, parallel_map, require_tlc_ok, run_tlc, tier
from .tla import tla

WATCHDOG_S = 8


class Timeout(Exception):
    pass


def _alarm(signum, frame):
    raise Timeout()


def _replay_sweep(item):
    """Real field_optimization_fr / _wp_space_fr with the field generator replaced by the model's count sequence."""
    import_repo()
    import numpy as np  # noqa: PLC0415

    import ghedesigner.rowwise as rw  # noqa: PLC0415

    seen = item["seen"]
    bad = []
    for which in ("fr", "wp"):
        calls = []

        def fake(*a, rotate=0, **kw):
            k = len(calls)
            calls.append(rotate)
            n = seen[k] if k < len(seen) else 0
            return np.array([[1000.0 * (k + 1) + 50.0 * j, 7.0 * k] for j in range(n)]).reshape(-1, 2)

        real = (rw.gen_borehole_config, rw.two_space_gen_bhc)
        rw.gen_borehole_config = fake
        rw.two_space_gen_bhc = fake
        try:
            step = 10.0
            stop = (len(seen) - 0.5) * step * math.pi / 180.0
            try:
                if which == "fr":
                    field, name = rw.field_optimization_fr(10.0, step, None, rotate_start=0.0, rotate_stop=stop)
                else:
                    field, name = rw.field_optimization_wp_space_fr(0.8, 10.0, step, None, rotate_start=0.0, rotate_stop=stop)
                out = ("field", len(field), name)
            except TypeError:
                out = ("TypeError", 0, "")
            except Exception as ex:  # noqa: BLE001
                out = (type(ex).__name__, 0, str(ex))
        finally:
            rw.gen_borehole_config, rw.two_space_gen_bhc = real
        if len(calls) != len(seen):
            bad.append(f"{which}: {len(calls)} rotations tried, model {len(seen)}")
        if out[0] != item["outcome"]:
            bad.append(f"{which}: outcome {out[0]} vs model {item['outcome']}")
        elif out[0] == "field":
            want_rt = (item["bestK"] - 1) * 10.0
            if out[1] != item["best"] or not out[2].endswith(f"rt{want_rt:0.1f}"):
                bad.append(f"{which}: returned {out[1]} boreholes named {out[2]}, model: first maximum {item['best']} at rotation {want_rt}")
    return bad


def _lattice_case(case):
    import_repo()
    import numpy as np  # noqa: PLC0415

    from ghedesigner.rowwise import gen_borehole_config, gen_shape  # noqa: PLC0415

    W, H, s, ox, oy = case
    signal.signal(signal.SIGALRM, _alarm)
    signal.alarm(WATCHDOG_S)
    try:
        pb, _ = gen_shape([[ox, oy], [ox + W, oy], [ox + W, oy + H], [ox, oy + H]])
        r = gen_borehole_config(pb, float(s), float(s), rotate=0)
    except Timeout:
        return [f"gen_borehole_config does not terminate on the {W}x{H} lot at ({ox},{oy}) with spacing {s}"]
    except Exception as ex:  # noqa: BLE001
        return [f"{W}x{H} lot, spacing {s}: raised {type(ex).__name__}: {ex}"]
    finally:
        signal.alarm(0)
    got = {(round(float(p[0]), 6), round(float(p[1]), 6)) for p in np.asarray(r).reshape(-1, 2)}
    # when W/s or H/s is an integer the code's floor of a rounded float quotient may legitimately come out one lower
    # (either rounding of an exact boundary is legal); everywhere else the closed form is exact
    for nx in ([W // s] + ([W // s - 1] if W % s == 0 and W // s > 1 else [])):
        for ny in ([H // s] + ([H // s - 1] if H % s == 0 and H // s > 1 else [])):
            want = {(round(ox + i * W / nx, 6), round(oy + j * H / ny, 6)) for i in range(nx + 1) for j in range(ny + 1)}
            if got == want:
                return []
    nx, ny = W // s, H // s
    want = {(round(ox + i * W / nx, 6), round(oy + j * H / ny, 6)) for i in range(nx + 1) for j in range(ny + 1)}
    return [f"{W}x{H} lot at ({ox},{oy}), spacing {s}: {len(got)} boreholes, closed form ({nx + 1} x {ny + 1}) = {len(want)}; missing {sorted(want - got)[:3]} extra {sorted(got - want)[:3]}"]


def convex_polygon(rnd: random.Random, n, touch_axes=False, ccw=True):
    cx, cy, r = rnd.uniform(80, 120), rnd.uniform(80, 120), rnd.uniform(35, 70)
    angs = sorted(rnd.uniform(0, 2 * math.pi) for _ in range(n))
    # keep it fat: minimum angular gap
    for _ in range(50):
        if all((angs[(i + 1) % n] - angs[i]) % (2 * math.pi) > 0.25 for i in range(n)) and max((angs[(i + 1) % n] - angs[i]) % (2 * math.pi) for i in range(n)) < 2.6:
            break
        angs = sorted(rnd.uniform(0, 2 * math.pi) for _ in range(n))
    e = rnd.uniform(0.75, 1.0)
    pts = [(cx + r * math.cos(a), cy + e * r * math.sin(a)) for a in angs]
    if touch_axes:
        mx, my = min(p[0] for p in pts), min(p[1] for p in pts)
        pts = [(p[0] - mx, p[1] - my) for p in pts]
    pts = [(round(p[0], 3), round(p[1], 3)) for p in pts]
    if not ccw:
        pts.reverse()
    return pts


def edge_on_axis(pts, axis):
    """Rotate/translate a convex polygon so that its first edge lies on the y-axis (axis=0) or x-axis (axis=1), all coordinates >= 0."""
    (x0, y0), (x1, y1) = pts[0], pts[1]
    ang = math.atan2(y1 - y0, x1 - x0)
    target = math.pi / 2 if axis == 0 else 0.0
    c, sn = math.cos(target - ang), math.sin(target - ang)
    rot = [((p[0] - x0) * c - (p[1] - y0) * sn, (p[0] - x0) * sn + (p[1] - y0) * c) for p in pts]
    if axis == 0 and any(p[0] < -1e-9 for p in rot):
        rot = [(-p[0], p[1]) for p in rot]
    if axis == 1 and any(p[1] < -1e-9 for p in rot):
        rot = [(p[0], -p[1]) for p in rot]
    mx, my = min(p[0] for p in rot), min(p[1] for p in rot)
    out = [(round(p[0] - mx, 3), round(p[1] - my, 3)) for p in rot]
    # the edge itself exactly on the axis
    out[0] = (0.0, out[0][1]) if axis == 0 else (out[0][0], 0.0)
    out[1] = (0.0, out[1][1]) if axis == 0 else (out[1][0], 0.0)
    return out


def is_convex(pts):
    n = len(pts)
    sg = 0
    for i in range(n):
        a, b, c = pts[i], pts[(i + 1) % n], pts[(i + 2) % n]
        cr = (b[0] - a[0]) * (c[1] - b[1]) - (b[1] - a[1]) * (c[0] - b[0])
        if abs(cr) < 1e-6:
            return False
        if sg == 0:
            sg = 1 if cr > 0 else -1
        elif (cr > 0) != (sg > 0):
            return False
    return True


def inside_or_on(pts, p, tol=1e-6):
    """Convex polygon: signed distance to every edge line >= -tol (orientation independent)."""
    n = len(pts)
    area = sum(pts[i][0] * pts[(i + 1) % n][1] - pts[(i + 1) % n][0] * pts[i][1] for i in range(n))
    sg = 1.0 if area > 0 else -1.0
    for i in range(n):
        a, b = pts[i], pts[(i + 1) % n]
        d = sg * ((b[0] - a[0]) * (p[1] - a[1]) - (b[1] - a[1]) * (p[0] - a[0])) / math.hypot(b[0] - a[0], b[1] - a[1])
        if d < -tol:
            return False, d
    return True, 0.0


def _dist_to_segment(p, a, b):
    ax, ay, bx, by = a[0], a[1], b[0], b[1]
    dx, dy = bx - ax, by - ay
    t = max(0.0, min(1.0, ((p[0] - ax) * dx + (p[1] - ay) * dy) / (dx * dx + dy * dy)))
    return math.hypot(p[0] - (ax + t * dx), p[1] - (ay + t * dy))


def strictly_inside(pts, p, tol=1e-6):
    n = len(pts)
    area = sum(pts[i][0] * pts[(i + 1) % n][1] - pts[(i + 1) % n][0] * pts[i][1] for i in range(n))
    sg = 1.0 if area > 0 else -1.0
    return all(sg * ((pts[(i + 1) % n][0] - pts[i][0]) * (p[1] - pts[i][1]) - (pts[(i + 1) % n][1] - pts[i][1]) * (p[0] - pts[i][0]))
               / math.hypot(pts[(i + 1) % n][0] - pts[i][0], pts[(i + 1) % n][1] - pts[i][1]) > tol for i in range(n))


DEMO_OUTLINE = [[19.46202532, 108.8860759], [19.67827004, 94.46835443], [24.65189873, 75.65506329], [37.84282700, 61.66983122], [56.5, 55.5], [80.0, 57.0],
                [101.0, 68.0], [112.0, 88.0], [110.0, 110.0], [95.0, 128.0], [70.0, 137.0], [42.0, 131.0]]


def _random_case(seed):
    import_repo()
    import numpy as np  # noqa: PLC0415
    from scipy.spatial import cKDTree  # noqa: PLC0415

    import ghedesigner.rowwise as rw  # noqa: PLC0415

    rnd = random.Random(seed)
    out = {"bad": [], "timeouts": 0, "runs": 0, "rotations": 0}
    signal.signal(signal.SIGALRM, _alarm)
    for rep in range(4):
        n = rnd.randint(3, 12)
        pts = convex_polygon(rnd, n, touch_axes=rnd.random() < 0.35, ccw=rnd.random() < 0.5)
        if rep == 0 and seed % 5 == 0:
            pts = [tuple(p) for p in DEMO_OUTLINE]
        elif rep == 1:
            pts = edge_on_axis(pts, seed % 2)          # an edge lying on a coordinate axis
        elif rep == 2 and seed % 3 == 0:
            w, h = rnd.randint(4, 12) * 10.0, rnd.randint(4, 10) * 10.0
            pts = [(0.0, 0.0), (w, 0.0), (w, h), (0.0, h)]  # axis-aligned lot at the origin
        if not is_convex(pts):
            continue
        spacing = round(rnd.uniform(5, 25), 2)
        step = rnd.choice([0.5, 1.0, 5.0, 7.5, 15.0]) if rnd.random() < 0.3 else rnd.choice([5.0, 15.0])
        lo = rnd.choice([-90.0, -45.0, 0.0]) if rep not in (1, 2) else -90.0
        hi = rnd.choice([90.0, 45.0, 30.0])
        use_p = rnd.random() < 0.3
        nogo = None
        if rnd.random() < 0.3:
            cx = sum(p[0] for p in pts) / len(pts)
            cy = sum(p[1] for p in pts) / len(pts)
            r = rnd.uniform(3, 8)
            nogo = [[(cx - r, cy - r), (cx + r, cy - r), (cx + r, cy + r), (cx - r, cy + r)]]
        width = min(max(p[0] for p in pts) - min(p[0] for p in pts), max(p[1] for p in pts) - min(p[1] for p in pts))
        if width < 3.2 * spacing:
            spacing = round(width / 3.3, 2)
            if spacing < 5:
                continue
        log = []
        realgen = rw.gen_borehole_config

        def logged(*a, **kw):
            r = realgen(*a, **kw)
            log.append((kw.get("rotate", 0), len(r)))
            return r

        def run(poly, ng):
            pb, ngs = rw.gen_shape([list(p) for p in poly], [[list(q) for q in z] for z in ng] if ng else None)
            if use_p:
                return rw.field_optimization_wp_space_fr(0.8, spacing, step, pb, ng_zones=ngs, rotate_start=lo * math.pi / 180, rotate_stop=hi * math.pi / 180)
            return rw.field_optimization_fr(spacing, step, pb, ng_zones=ngs, rotate_start=lo * math.pi / 180, rotate_stop=hi * math.pi / 180)

        desc = {"polygon": pts, "spacing": spacing, "rotate": (lo, hi, step), "perimeter": use_p, "nogo": nogo}
        out["runs"] += 1
        rw.gen_borehole_config = logged
        signal.alarm(WATCHDOG_S * 6)
        try:
            with warnings.catch_warnings(), contextlib.redirect_stdout(io.StringIO()):
                warnings.simplefilter("ignore")
                field, name = run(pts, nogo)
        except Timeout:
            out["timeouts"] += 1
            out["bad"].append({"what": "RowWise field generation does not terminate", **desc, "last_rotation_tried": log[-1] if log else None})
            continue
        except Exception as ex:  # noqa: BLE001
            out["bad"].append({"what": f"raised {type(ex).__name__}: {ex}", **desc})
            continue
        finally:
            signal.alarm(0)
            rw.gen_borehole_config = realgen
        out["rotations"] += len(log)
        f = np.asarray(field, dtype=float).reshape(-1, 2)
        for p in f:
            ok, d = inside_or_on(pts, p)
            if not ok:
                out["bad"].append({"what": f"borehole {tuple(p)} lies {-d:.4g} m outside the outline", **desc})
                break
            if nogo and strictly_inside(nogo[0], p):
                # listed finding F20: a row that passes exactly through two vertices of a no-go polygon (its diagonal) is treated
                # as not crossing it and a borehole is placed on that diagonal
                z = nogo[0]
                on_diag = any(_dist_to_segment(p, z[i], z[j]) < 1e-6 for i in range(len(z)) for j in range(i + 2, len(z)) if not (i == 0 and j == len(z) - 1))
                if on_diag:
                    out["f20"] = out.get("f20", 0) + 1
                else:
                    out["bad"].append({"what": f"borehole {tuple(p)} lies inside the no-go zone", **desc})
                break
        if not use_p and not nogo:
            if len(f) > 1:
                d, _ = cKDTree(f).query(f, k=2)
                if d[:, 1].min() < spacing - 1e-6:
                    out["bad"].append({"what": f"two boreholes {d[:, 1].min():.6f} m apart, target spacing {spacing}", **desc})
            counts = [c for _, c in log]
            if counts and len(f) != max(counts):
                out["bad"].append({"what": f"returned field has {len(f)} boreholes, the best tried rotation had {max(counts)}", **desc})
            if counts:
                first = counts.index(max(counts))
                want = log[first][0] * 180 / math.pi
                if not name.endswith(f"rt{want:0.1f}"):
                    out["bad"].append({"what": f"returned field is named {name}, the first best rotation is {want:0.1f} deg", **desc})
            # translating the lot translates the field rigidly
            dx, dy = round(rnd.uniform(0, 40), 2), round(rnd.uniform(0, 40), 2)
            signal.alarm(WATCHDOG_S * 6)
            try:
                log1 = list(log)
                del log[:]
                rw.gen_borehole_config = logged
                with warnings.catch_warnings(), contextlib.redirect_stdout(io.StringIO()):
                    warnings.simplefilter("ignore")
                    f2, _ = run([(p[0] + dx, p[1] + dy) for p in pts], None)
                rw.gen_borehole_config = realgen
                f2 = np.asarray(f2, dtype=float).reshape(-1, 2) - np.array([dx, dy])
                if [c for _, c in log1] != [c for _, c in log]:
                    # a row end falls exactly on the outline at some rotation and floating point decides differently for the two
                    # positions of the lot: a borderline count, not judged (each field is still judged on its own above)
                    out["borderline"] = out.get("borderline", 0) + 1
                    continue
                far = 0.0
                if len(f) == len(f2) and len(f) > 0:
                    dd, ii = cKDTree(f2).query(f, k=1)
                    far = float(dd.max()) if len(set(ii.tolist())) == len(f) else float("inf")
                if len(f) != len(f2) or far > 1e-6:
                    out["bad"].append({"what": f"translating the lot by ({dx},{dy}) does not translate the field rigidly ({len(f)} vs {len(f2)} boreholes, worst match {far:.3g} m)", **desc})
            except Timeout:
                out["timeouts"] += 1
                out["bad"].append({"what": "RowWise field generation does not terminate on the translated lot", **desc, "translation": (dx, dy)})
            except Exception as ex:  # noqa: BLE001
                out["bad"].append({"what": f"translated lot raised {type(ex).__name__}: {ex}", **desc})
            finally:
                signal.alarm(0)
                rw.gen_borehole_config = realgen
    return out


def _grid_lots_case(seed):
    """Convex lots whose vertices lie on a 5 m grid with a spacing that divides it: rows pass exactly through lot vertices. Every tried
    rotation must give boreholes at least the target spacing apart (no repeated borehole), and the optimiser returns the tried rotation
    with the most boreholes."""
    import_repo()
    import numpy as np  # noqa: PLC0415
    from scipy.spatial import cKDTree  # noqa: PLC0415

    import ghedesigner.rowwise as rw  # noqa: PLC0415

    rnd = random.Random(seed)
    out = {"bad": [], "lots": 0, "timeouts": 0}
    signal.signal(signal.SIGALRM, _alarm)
    for _ in range(40):
        n = rnd.randint(3, 6)
        pts = None
        for _try in range(20):
            cand = [(5.0 * rnd.randint(0, 20), 5.0 * rnd.randint(0, 20)) for _ in range(n)]
            cx, cy = sum(p[0] for p in cand) / n, sum(p[1] for p in cand) / n
            cand.sort(key=lambda p: math.atan2(p[1] - cy, p[0] - cx))
            if len(set(cand)) == n and is_convex(cand):
                pts = cand
                break
        if pts is None:
            continue
        if rnd.random() < 0.5:
            pts = pts[::-1]
        spacing = rnd.choice([5.0, 10.0])
        # true minimum width of the convex lot (smallest over the edges of the largest distance of a vertex from that edge's line)
        width = min(max(abs((b[0] - a[0]) * (a[1] - v[1]) - (a[0] - v[0]) * (b[1] - a[1])) / math.hypot(b[0] - a[0], b[1] - a[1]) for v in pts)
                    for a, b in zip(pts, pts[1:] + pts[:1]))
        if width < 3.2 * spacing:
            continue
        log = []
        realgen = rw.gen_borehole_config

        def logged(*a, **kw):
            r = realgen(*a, **kw)
            arr = np.asarray(r, dtype=float).reshape(-1, 2)
            mind, pair = float("inf"), None
            if len(arr) > 1:
                dd, ii = cKDTree(arr).query(arr, k=2)
                j = int(np.argmin(dd[:, 1]))
                mind, pair = float(dd[j, 1]), (tuple(arr[j]), tuple(arr[ii[j, 1]]))
            log.append((kw.get("rotate", 0), len(r), mind, pair))
            return r

        desc = {"polygon": pts, "spacing": spacing, "rotate": (0.0, 90.0, 15.0)}
        out["lots"] += 1
        rw.gen_borehole_config = logged
        signal.alarm(WATCHDOG_S * 6)
        try:
            with warnings.catch_warnings(), contextlib.redirect_stdout(io.StringIO()):
                warnings.simplefilter("ignore")
                pb, _ = rw.gen_shape([list(p) for p in pts], None)
                field, name = rw.field_optimization_fr(spacing, 15.0, pb, ng_zones=None, rotate_start=0.0, rotate_stop=90.0 * math.pi / 180)
        except Timeout:
            out["timeouts"] += 1
            out["bad"].append({"what": "RowWise field generation does not terminate (grid lot)", **desc})
            continue
        except Exception as ex:  # noqa: BLE001
            out["bad"].append({"what": f"raised {type(ex).__name__}: {ex} (grid lot)", **desc})
            continue
        finally:
            signal.alarm(0)
            rw.gen_borehole_config = realgen
        close = [(r, c, m, pq) for r, c, m, pq in log if m < spacing - 1e-6]
        if close:
            r, c, m, (p_, q_) = close[0]
            # listed finding F29: a row that passes exactly through a lot vertex is cut there into two pieces, each piece gets its own
            # boreholes and two of them end up closer than the spacing (never a repeated borehole: the pair is centimetres to metres apart)
            through_vertex = m > 1e-6 and any(abs((q_[0] - p_[0]) * (p_[1] - v[1]) - (p_[0] - v[0]) * (q_[1] - p_[1])) / max(m, 1e-12) < 1e-6 for v in pts)
            if through_vertex:
                out["f29"] = out.get("f29", 0) + 1
            else:
                out["bad"].append({"what": f"rotation {r * 180 / math.pi:.1f} deg yields two boreholes {m:.3g} m apart (target spacing {spacing}; {c} boreholes)", **desc})
            continue
        f = np.asarray(field, dtype=float).reshape(-1, 2)
        best = max(c for _, c, _, _ in log)
        if len(f) != best:
            out["bad"].append({"what": f"returned field has {len(f)} boreholes, the best tried rotation had {best}", **desc})
    return out


def _f20_reproduces():
    import_repo()
    import ghedesigner.rowwise as rw  # noqa: PLC0415

    pts = [[0.0, 0.0], [110.0, 0.0], [110.0, 40.0], [0.0, 40.0]]
    ng = [[[50.91017113061258, 15.91017113061258], [59.08982886938742, 15.91017113061258], [59.08982886938742, 24.089828869387418], [50.91017113061258, 24.089828869387418]]]
    signal.signal(signal.SIGALRM, _alarm)
    signal.alarm(WATCHDOG_S)
    try:
        pb, ngs = rw.gen_shape(pts, ng)
        r = rw.gen_borehole_config(pb, 5.26, 5.26, no_go=ngs, rotate=-45.0 * math.pi / 180)
        return any(strictly_inside(ng[0], (float(p[0]), float(p[1]))) for p in r)
    except Exception:  # noqa: BLE001
        return False
    finally:
        signal.alarm(0)


def _f29_reproduces():
    import_repo()
    import numpy as np  # noqa: PLC0415

    import ghedesigner.rowwise as rw  # noqa: PLC0415

    signal.signal(signal.SIGALRM, _alarm)
    signal.alarm(WATCHDOG_S)
    try:
        pb, _ = rw.gen_shape([[0.0, 100.0], [40.0, 40.0], [40.0, 30.0]], None)
        r = np.asarray(rw.gen_borehole_config(pb, 10.0, 10.0, rotate=0.0), dtype=float).reshape(-1, 2)
        d = np.sqrt(((r[:, None, :] - r[None, :, :]) ** 2).sum(-1)) + np.eye(len(r)) * 1e9
        return 1e-6 < float(d.min()) < 10.0 - 1e-6
    except Exception:  # noqa: BLE001
        return False
    finally:
        signal.alarm(0)


def run() -> int:
    chk = Check("C14")
    t = tier()
    chk.rule = ("TLC enumerates every count sequence of the rotation sweep (1..6 rotations, counts 0..3) and checks first-strict-maximum and termination; both optimisers are replayed with "
                "a count oracle; gen_borehole_config is compared with the closed-form lattice on every integer W x H lot 10..60 and spacing 5..25; random convex lots (3..12 vertices, "
                "either orientation, touching the axes, demo outline) run under a watchdog; distinct = count sequences + lots")
    chk.trusted = ["TLC 1.8.0", "geometric measurements (inside-or-on with 1 um band, KD-tree minimum distance) in harness/p_rowwise.py"]
    items = []
    for mt in range(1, 7 if t == "thorough" else 6):
        consts = f"CONSTANTS\n MaxTries = {mt}\n Counts <- c_Counts\n"
        mod = "---- MODULE MC_Sweep ----\nEXTENDS RowWiseSweep\nc_Counts == 0..3\n====\n"
        cfg = "SPECIFICATION Spec\nCHECK_DEADLOCK FALSE\n" + consts + "INVARIANT ReturnsFirstMaximum\nPROPERTY Terminates\nINVARIANT Emit\n"
        res = run_tlc("MC_Sweep", cfg, extra_modules={"MC_Sweep.tla": mod}, workers=1, timeout=1200)
        chk.add_tlc(res)
        if res.violated:
            chk.violation(f"RowWiseSweep.tla {res.violated} violated", {"state": res.stdout.split('\nState ')[-1][:800]})
            continue
        require_tlc_ok(res, f"RowWiseSweep {mt}")
        items += res.prints
    for it, bad in zip(items, parallel_map(_replay_sweep, items, chunksize=64)):
        chk.nontrivial.add(("sweep", tuple(it["seen"])))
        if bad:
            chk.violation(f"C14 rotation sweep with counts {it['seen']}: {bad[0]}", {"case": it, "bad": bad})
            if len(chk.violations) > 5:
                break
    chk.traces += len(items)
    chk.sample({"counts_per_rotation": items[-1]["seen"], "first_max_index": items[-1]["bestK"], "outcome": items[-1]["outcome"]})
    # closed-form lattice
    rng = list(range(10, 61, 10 if t == "quick" else 5)) + [13, 27, 44]
    cases = [(W, H, s, ox, oy) for W in rng for H in rng for s in ((5, 10, 25) if t == "quick" else (5, 7, 10, 15, 20, 25)) for (ox, oy) in ((0, 0), (3, 11)) if W // s >= 1 and H // s >= 2]      # a lot only one spacing deep has num_rows = 0 or 1 depending on rounding and divides by zero by design
    for c, bad in zip(cases, parallel_map(_lattice_case, cases, chunksize=8)):
        chk.nontrivial.add(("lattice",) + c)
        if bad:
            chk.violation(f"C14 lattice: {bad[0]}", {"case": c})
            if len(chk.violations) > 8:
                break
    chk.traces += len(cases)
    chk.note("lattice_lots", len(cases))
    # the listed finding F20, on its recorded input (reported as KNOWN-FINDING while it reproduces)
    if _f20_reproduces():
        chk.violation("F20", None, known_key="F20")
    if _f29_reproduces():
        chk.violation("F29", None, known_key="F29")
    # random convex lots
    seeds = [chk.seed * 101 + i for i in range(16 if t == "quick" else 400)]
    runs = rot = to = 0
    for s, o in zip(seeds, parallel_map(_random_case, seeds)):
        runs += o["runs"]
        rot += o["rotations"]
        to += o["timeouts"]
        chk.count("translation_pairs_with_borderline_counts_not_judged", o.get("borderline", 0))
        for _ in range(o.get("f20", 0)):
            chk.violation("F20", None, known_key="F20")
        for b in o["bad"][:2]:
            chk.violation(f"C14 random convex lot: {b['what']}", b)
    glots = 0
    gseeds = [chk.seed * 211 + i for i in range(16 if t == "quick" else 160)]
    for o in parallel_map(_grid_lots_case, gseeds):
        glots += o["lots"]
        to += o["timeouts"]
        for _ in range(o.get("f29", 0)):
            chk.violation("F29", None, known_key="F29")
        for b in o["bad"][:2]:
            chk.violation(f"C14 grid lot: {b['what']}", b)
    chk.note("grid_lots", glots)
    chk.traces += glots
    chk.note("random_lots", runs)
    chk.note("rotations_tried", rot)
    chk.note("timeouts", to)
    chk.evaluations += len(items) + len(cases) + runs
    chk.exhaustive = True
    return chk.finish()
