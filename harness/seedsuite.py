"""./check seeds [PID ...] : regression over the stored seeded changes (seeded/<id>/patch.diff).
Each patch is applied to a scratch git worktree of $VERIF_REPO's HEAD outside /repo and /verif, the quick check of its property is run
against that worktree, and the run is expected to end with exit 1 and a VIOLATION line. Not registered in MANIFEST.json (hours)."""
from __future__ import annotations

import json
import os
import subprocess
import sys
import tempfile
from pathlib import Path

from .core import REPO, VERIF


def run(pids=None) -> int:
    seeds = sorted((VERIF / "seeded").glob("*/meta.json"))
    ok = True
    n = caught = skipped = 0
    for mf in seeds:
        meta = json.loads(mf.read_text())
        pid = meta["property"]
        if pids and pid not in pids:
            continue
        if meta.get("expected", "").startswith("not detected"):
            print(f"SEED {meta['id']} ({pid}): {meta['expected']} - not run")
            skipped += 1
            continue
        wt = Path(tempfile.mkdtemp(prefix="verif-seed-")) / "wt"
        try:
            subprocess.run(["git", "-C", str(REPO), "worktree", "add", "-q", "--detach", str(wt), "HEAD"], check=True, capture_output=True)
            ap = subprocess.run(["git", "-C", str(wt), "apply", str(mf.parent / "patch.diff")], capture_output=True, text=True, check=False)
            if ap.returncode != 0:
                print(f"SEED {meta['id']}: patch does not apply to the current tree (skipped)")
                skipped += 1
                continue
            env = dict(os.environ, VERIF_REPO=str(wt), VERIF_NO_EVIDENCE="1", VERIF_TIER="quick")
            p = subprocess.run([str(VERIF / "check"), pid], env=env, capture_output=True, text=True, check=False)
            hit = p.returncode == 1 and f"VIOLATION property={pid}" in p.stdout
            n += 1
            caught += hit
            ok = ok and hit
            print(f"SEED {meta['id']} ({pid}): {'caught' if hit else 'MISSED (exit %d)' % p.returncode}", flush=True)
        finally:
            subprocess.run(["git", "-C", str(REPO), "worktree", "remove", "--force", str(wt)], capture_output=True, check=False)
            subprocess.run(["rm", "-rf", str(wt.parent)], check=False)
    print(f"SEEDS: {caught}/{n} caught, {skipped} skipped")
    return 0 if ok else 1


if __name__ == "__main__":
    sys.exit(run(sys.argv[1:] or None))
