"""C03: Domains.tla + list-for-list replay of the real generators + random real-valued lots."""
from __future__ import annotations

import math
import os
import random
from fractions import Fraction
from math import ceil, floor

from .core import Check, MachineryError, import_repo, parallel_map, require_tlc_ok, run_tlc, tier
from .tla import tla, tla_set

FIXED = set(filter(None, os.environ.get("VERIF_FIXED_DOMAINS", "F4").split(",")))
GENS = ("nearsq", "rect", "birect", "zoned")
INVS = ["InsideLand", "SpacingAtLeastBmin", "NearSquareShape", "CountsNonDecreasing", "CountsStrictlyIncreasing", "NonEmpty", "NoCandidateWithoutCount", "BiRectListsStartWithSingle", "BiRectFirstListLongEnough"]


def admissible(lx, ly, bmin, bmx, bmy, gen, need_count=True):
    """Lots that admit >= 3 rows at the maximum spacing in each direction and (need_count) at least one whole row count between the
    spacing limits. need_count=False also admits windows such as 87 m with b_min = b_max = 5 m, for which the generators return no candidate."""
    if gen == "nearsq":
        return lx >= bmin
    l1, l2 = max(lx, ly), min(lx, ly)
    tr = lx < ly
    if gen == "rect":
        b1 = b2 = bmx
    else:
        b1, b2 = (bmy, bmx) if tr else (bmx, bmy)
    for l, b in ((l1, b1), (l2, b2)):
        lo, hi = -(-l // b), l // bmin
        if (need_count and lo > hi) or lo + 1 < 3:
            return False
    return True


def lots_for(gen, t):
    lots = []
    rng = range(6, 25) if t == "thorough" else range(8, 15)
    for lx in rng:
        for ly in rng:
            for bmin in (1, 2, 3, 4):
                for bmx in sorted({bmin, bmin + 1, 2 * bmin, 3 * bmin}):
                    for bmy in sorted({bmin, 2 * bmin + 1, 3 * bmin}):
                        if gen in ("nearsq",) and (ly != rng[0] or bmx != bmin or bmy != bmin):
                            continue
                        if gen == "rect" and bmy != bmin:
                            continue
                        if admissible(lx, ly, bmin, bmx, bmy, gen, need_count=False):
                            lots.append({"lx": lx, "ly": ly, "bmin": bmin, "bmx": bmx, "bmy": bmy})
    if gen == "rect":
        # strips: the shorter side is below the largest spacing (a single row at the first trial spacings); rectangular() accepts them
        for long_side in (rng[-1], rng[-1] + 7):
            for short in (1, 2, 3, 5):
                for bmin, bmx in ((1, 4), (2, 6), (3, 7), (1, 3)):
                    if short < bmx and long_side // bmx + 1 >= 3:
                        lots.append({"lx": long_side, "ly": short, "bmin": bmin, "bmx": bmx, "bmy": bmin})
                        lots.append({"lx": short, "ly": long_side, "bmin": bmin, "bmx": bmx, "bmy": bmin})
    return lots


def mc(gen, lots, fixed):
    mod = f"""---- MODULE MC_Domains ----
EXTENDS Domains
c_Lots == {tla_set(lots)}
c_Fixed == {tla(set(fixed))}
====
"""
    consts = f"""CONSTANTS
 Lots <- c_Lots
 Gen = "{gen}"
 Fixed <- c_Fixed
"""
    return mod, consts


# ---- measuring real coordinate lists -------------------------------------------------------------
def measure(coords):
    import numpy as np  # noqa: PLC0415
    from scipy.spatial import cKDTree  # noqa: PLC0415

    a = np.asarray(coords, dtype=float).reshape(-1, 2)
    n = len(a)
    md = float("inf")
    if n > 1:
        d, _ = cKDTree(a).query(a, k=2)
        md = float(d[:, 1].min())
    return {"n": n, "minx": float(a[:, 0].min()), "miny": float(a[:, 1].min()), "maxx": float(a[:, 0].max()), "maxy": float(a[:, 1].max()),
            "mind": md, "dups": n - len(set(map(tuple, coords)))}


def call_generator(gen, lx, ly, bmin, bmx, bmy):
    """lx, ly, ... are floats in metres. The candidate lists are built the way a user gets them: manager setter -> set_design ->
    Design<Geometry> constructor -> domains.*. Returns a list of lists of coordinate lists."""
    import_repo()
    from ghedesigner.manager import GHEManager  # noqa: PLC0415

    m = GHEManager()
    if gen == "nearsq":
        m.set_geometry_constraints_near_square(b=bmin, length=lx)
    elif gen == "rect":
        m.set_geometry_constraints_rectangle(length=lx, width=ly, b_min=bmin, b_max=bmx)
    elif gen == "birect":
        m.set_geometry_constraints_bi_rectangle(length=lx, width=ly, b_min=bmin, b_max_x=bmx, b_max_y=bmy)
    else:
        m.set_geometry_constraints_bi_zoned_rectangle(length=lx, width=ly, b_min=bmin, b_max_x=bmx, b_max_y=bmy)
    m.set_design(flow_rate=0.3, flow_type_str="borehole")
    d = m._design
    if gen in ("nearsq", "rect"):
        return [d.coordinates_domain]
    return d.coordinates_domain_nested


def float_boundary(gen, lx, ly, bmin, bmx, bmy):
    """True when one of the code's ceil/floor/comparison expressions evaluates, in floats, differently from exact arithmetic
    for this lot (either rounding is a legal behaviour there, so lists are not compared one-for-one)."""
    tr = lx < ly
    l1, l2 = (ly, lx) if tr else (lx, ly)
    F = Fraction
    if gen == "nearsq":
        return floor(lx / bmin) != floor(F(lx) / F(bmin))
    if gen == "rect":
        if ceil(l1 / bmx + 1) != ceil(F(l1) / F(bmx) + 1) or floor(l1 / bmin + 1) != floor(F(l1) / F(bmin) + 1):
            return True
        for nb in range(ceil(F(l1) / F(bmx) + 1), floor(F(l1) / F(bmin) + 1) + 1):
            b = l1 / (nb - 1)
            if floor(l2 / b + 1) != floor(F(l2) * (nb - 1) / F(l1) + 1):
                return True
        return False
    b1, b2 = (bmy, bmx) if tr else (bmx, bmy)
    for l, b in ((l1, b1), (l2, b2)):
        if ceil(l / b + 1) != ceil(F(l) / F(b) + 1) or floor(l / bmin + 1) != floor(F(l) / F(bmin) + 1):
            return True
    if gen == "birect":
        for n2 in range(ceil(F(l2) / F(b2) + 1), floor(F(l2) / F(bmin) + 1) + 1):
            bb = l2 / (n2 - 1)
            if ceil(round(l2 / bb, 9) + 1) != n2:
                return True
        return False
    # zoned: ratio ties
    for n1 in range(ceil(F(l1) / F(b1) + 1), floor(F(l1) / F(bmin) + 1) + 1):
        for n2 in range(ceil(F(l2) / F(b2) + 1), floor(F(l2) / F(bmin) + 1) + 1):
            for a in range(1, n1 - 1):
                for b in range(1, n2 - 1):
                    if (b + 2) * (n1 - 1) == (a + 1) * (n2 - 1):
                        bf1, bf2 = l1 / (n1 - 1), l2 / (n2 - 1)
                        r1 = ((n1 - 1) * bf1 / (a + 1)) / ((n2 - 1) * bf2 / (b + 2))
                        if r1 > bf1 / bf2:
                            return True
    return False


def predicates(gen, lists, lx, ly, bmin):
    """C03's predicates on real coordinates. Returns dict name -> list of failures."""
    bad = {"InsideLand": [], "NoCoincident": [], "SpacingAtLeastBmin": [], "CountsNonDecreasing": [], "NearSquareShape": []}
    eps = 1e-9 * max(lx, ly, 1.0)
    for j, lst in enumerate(lists):
        prev = 0
        for i, coords in enumerate(lst):
            m = measure(coords)
            if gen == "nearsq":
                ext = sorted((m["maxx"] - m["minx"], m["maxy"] - m["miny"]))
                if m["minx"] < -eps or m["miny"] < -eps or ext[0] > lx + eps:
                    bad["NearSquareShape"].append((j, i, m))
                k1 = round(ext[0] / bmin) + 1
                k2 = round(ext[1] / bmin) + 1
                if k1 * k2 != m["n"] or k2 - k1 not in (0, 1) or (m["n"] > 1 and abs(m["mind"] - bmin) > 1e-9 * bmin):
                    bad["NearSquareShape"].append((j, i, m))
            elif m["minx"] < -eps or m["miny"] < -eps or m["maxx"] > lx + eps or m["maxy"] > ly + eps:
                bad["InsideLand"].append((j, i, m))
            if m["dups"]:
                bad["NoCoincident"].append((j, i, m))
            if m["n"] > 1 and m["mind"] < bmin * (1 - 1e-9):
                bad["SpacingAtLeastBmin"].append((j, i, m))
            if gen != "zoned" and m["n"] < prev:
                bad["CountsNonDecreasing"].append((j, i, m["n"], prev))
            prev = m["n"]
    return bad


def cand_measures(c, unit):
    """Expected count / extents of a symbolic candidate <<kind,n1,n2,b1,b2,tr,ni1,ni2,extra,count>> (unit = metres per model unit)."""
    kind, n1, n2, b1, b2, tr, ni1, ni2, extra, count = c
    e1 = Fraction(b1[0], b1[1]) * (n1 - 1) * unit
    e2 = Fraction(b2[0], b2[1]) * (n2 - 1) * unit
    if kind == "rect" and n2 == 1:
        e2 = Fraction(0)
    if kind == "rect" and n1 == 1:
        e1 = Fraction(0)
    ex, ey = (e2, e1) if tr else (e1, e2)
    return count, float(ex), float(ey)


def _replay(item):
    gen, lot, unit = item["gen"], item["lot"], item["unit"]
    u = float(Fraction(unit))
    lx, ly, bmin, bmx, bmy = (lot[k] * u for k in ("lx", "ly", "bmin", "bmx", "bmy"))
    try:
        lists = call_generator(gen, lx, ly, bmin, bmx, bmy)
    except Exception as ex:  # noqa: BLE001
        if not admissible(lot["lx"], lot["ly"], lot["bmin"], lot["bmx"], lot["bmy"], gen, need_count=True) and all(len(l) == 0 for l in item["lists"]):
            # no whole row count between the spacing limits: the model has no candidate, the code raises instead of returning empty lists.
            # No candidate either way (C03 vacuous); the exception type is C02's business.
            return {"mismatch": [], "bad": {}, "no_count_raise": type(ex).__name__}
        return {"error": f"{type(ex).__name__}: {ex}", "mismatch": [f"generator raised {type(ex).__name__}: {ex}"], "bad": {}}
    bad = predicates(gen, lists, lx, ly, bmin)
    mm = []
    fb = float_boundary(gen, lx, ly, bmin, bmx, bmy)
    if not fb:
        exp = item["lists"]
        if len(exp) != len(lists):
            mm.append(f"number of lists: model {len(exp)} vs code {len(lists)}")
        else:
            for j, (el, cl) in enumerate(zip(exp, lists)):
                if len(el) != len(cl):
                    mm.append(f"list {j}: model {len(el)} candidates vs code {len(cl)}")
                    break
                for i, (c, coords) in enumerate(zip(el, cl)):
                    cnt, ex, ey = cand_measures(c, Fraction(unit))
                    m = measure(coords)
                    if m["n"] != cnt or abs((m["maxx"] - m["minx"]) - ex) > 1e-9 * max(1, ex) or abs((m["maxy"] - m["miny"]) - ey) > 1e-9 * max(1, ey):
                        mm.append(f"list {j} candidate {i} ({c[0]} {c[1]}x{c[2]}): model count {cnt} extent ({ex},{ey}) vs code count {m['n']} extent ({m['maxx'] - m['minx']},{m['maxy'] - m['miny']})")
                        break
                if mm:
                    break
    return {"mismatch": mm, "bad": {k: v[:2] for k, v in bad.items() if v}, "float_boundary": fb}


def _random_lots(seed):
    rnd = random.Random(seed)
    out = []
    for _ in range(40):
        gen = rnd.choice(GENS)
        bmin = rnd.choice([3.0, 4.5, 5.0, 0.1 * rnd.randint(25, 80)])
        bmx = bmin * rnd.choice([1.0, 1.01, 1.5, 2.0, 2.7, 3.0])
        bmy = bmin * rnd.choice([1.0, 1.01, 1.3, 2.0, 3.0])
        big = rnd.random() < 0.15
        lx = round(rnd.uniform(3 * bmx, (60 if big else 14) * bmx), rnd.choice([0, 1, 2]))
        ly = round(rnd.uniform(3 * bmy, (60 if big else 14) * bmy), rnd.choice([0, 1, 2]))
        if rnd.random() < 0.2:
            ly = lx
        if rnd.random() < 0.2:           # boundary ratios such as 0.3 / 0.1
            k = rnd.randint(3, 12)
            lx = k * bmin
        if gen == "nearsq":
            ok = lx >= bmin
        else:
            F = Fraction
            ok = admissible(F(str(lx)), F(str(ly)), F(str(bmin)), F(str(bmx)), F(str(bmy)), gen, need_count=False)
        if not ok:
            continue
        if gen in ("birect", "zoned") and (lx / bmin) * (ly / bmin) > 2500:
            continue
        try:
            lists = call_generator(gen, lx, ly, bmin, bmx, bmy)
        except Exception as ex:  # noqa: BLE001
            F = Fraction
            if not admissible(F(str(lx)), F(str(ly)), F(str(bmin)), F(str(bmx)), F(str(bmy)), gen, need_count=True):
                # no whole row count fits between the spacing limits: there is no candidate field, C03 is vacuous (how the run must end is C02's business)
                out.append({"gen": gen, "lot": (lx, ly, bmin, bmx, bmy), "bad": {}, "no_count_raise": f"{type(ex).__name__}"})
            elif float_boundary(gen, lx, ly, bmin, bmx, bmy):
                # side / spacing is an exact integer and the float quotient lands on the other side: the lot is admissible in exact arithmetic
                # only; either rounding is legal, including "no admissible row count"
                out.append({"gen": gen, "lot": (lx, ly, bmin, bmx, bmy), "bad": {}, "float_boundary_raise": True})
            else:
                out.append({"gen": gen, "lot": (lx, ly, bmin, bmx, bmy), "bad": {"Raises": [f"{type(ex).__name__}: {ex}"]}})
            continue
        bad = predicates(gen, lists, lx, ly, bmin)
        out.append({"gen": gen, "lot": (lx, ly, bmin, bmx, bmy), "bad": {k: v[:1] for k, v in bad.items() if v}, "cands": sum(len(l) for l in lists)})
    return out


def is_f15(gen, lot, badrec):
    """Known finding F15: bi-rectangle family, the row count of a nested list is recomputed as ceil(l2 / (l2/k) + 1) and float rounding
    makes it k+2; the spacing across the rows then drops below b_min. Signature: a spacing violation whose minimum distance is l2/(k+1)."""
    if gen not in ("birect",):
        return False
    lx, ly, bmin = lot[0], lot[1], lot[2]
    l2 = min(lx, ly)
    for (_, _, m) in badrec:
        k = round(l2 / m["mind"]) - 1
        if k < 1 or abs(l2 / (k + 1) - m["mind"]) > 1e-9 * l2:
            return False
        if ceil(l2 / (l2 / k) + 1) != k + 2:
            return False
    return True


def run() -> int:
    chk = Check("C03")
    t = tier()
    chk.rule = ("TLC evaluates each generator (near-square, rectangle, bi-rectangle nested, bi-zoned) symbolically on every admissible integer lot in the "
                "configuration and checks extents / spacing / ordering of every candidate; the real generators are called on the same lots (at 1x, 1/4, 1/8 scale) "
                "and compared list-for-list, and on random real-valued lots judged by measured extents and minimum pair distance; distinct = (generator, lot)")
    chk.trusted = ["closed-form count/extents of symbolic candidates (Domains.tla), cross-checked against the real coordinates in the replay", "TLC 1.8.0"]
    items = []
    for gen in GENS:
        lots = lots_for(gen, t)
        if not lots:
            raise MachineryError(f"no lots for {gen}")
        mod, consts = mc(gen, lots, FIXED)
        cfg = "INIT Init\nNEXT Next\nCHECK_DEADLOCK FALSE\n" + consts + "".join(f"INVARIANT {i}\n" for i in INVS)
        res = run_tlc("MC_Domains", cfg, extra_modules={"MC_Domains.tla": mod}, want_prints=False, timeout=3000)
        chk.add_tlc(res)
        chk.extra.setdefault("model_runs", []).append({"gen": gen, "lots": len(lots), "states": res.distinct})
        if res.violated:
            chk.violation(f"Domains.tla invariant {res.violated} violated for generator {gen}", {"state": res.stdout.split('\nState ')[-1][:2500]})
            continue
        require_tlc_ok(res, f"Domains {gen}")
        cfg = "INIT Init\nNEXT Next\nCHECK_DEADLOCK FALSE\n" + consts + "INVARIANT Emit\n"
        res = run_tlc("MC_Domains", cfg, extra_modules={"MC_Domains.tla": mod}, workers=1, timeout=3000)
        require_tlc_ok(res, f"Domains gen {gen}")
        for p in res.prints:
            for unit in ("1", "1/4", "1/8") if t == "thorough" else ("1", "1/4"):
                items.append({"gen": p["gen"], "lot": p["lot"], "lists": p["lists"], "unit": unit})
    rnd = random.Random(chk.seed)
    cap = 2000 if t == "quick" else 60000
    if len(items) > cap:
        items = rnd.sample(items, cap)
    results = parallel_map(_replay, items, chunksize=16)
    drift = 0
    fbn = 0
    for it, r in zip(items, results):
        chk.nontrivial.add((it["gen"], tuple(sorted(it["lot"].items())), it["unit"]))
        fbn += 1 if r.get("float_boundary") else 0
        if r.get("no_count_raise"):
            chk.count("lots_without_row_count_generator_raises")
        if not any(len(l) for l in it["lists"]):
            chk.count("lots_without_row_count")
        if r["bad"]:
            u = float(Fraction(it["unit"]))
            lot = tuple(it["lot"][k] * u for k in ("lx", "ly", "bmin", "bmx", "bmy"))
            if set(r["bad"]) == {"SpacingAtLeastBmin"} and is_f15(it["gen"], lot, r["bad"]["SpacingAtLeastBmin"]):
                chk.violation(f"C03: bi-rectangle list with the row count bumped by float noise (spacing below b_min) on lot {it['lot']} x {it['unit']}: the defect F15 has returned", {"item": it["lot"], "unit": it["unit"], "bad": r["bad"]}, known_key="F15")
            else:
                chk.violation(f"C03: generator {it['gen']} on lot {it['lot']} x {it['unit']}: {list(r['bad'])}", {"item": it["lot"], "unit": it["unit"], "bad": r["bad"], "mismatch": r["mismatch"]})
        elif r["mismatch"]:
            drift += 1
            chk.note("conformance_drift_sample", {"gen": it["gen"], "lot": it["lot"], "unit": it["unit"], "mismatch": r["mismatch"][:2]})
    chk.traces += len(items)
    chk.evaluations += len(items)
    chk.note("conformance_drift", drift)
    chk.note("float_boundary_lots_not_compared_list_for_list", fbn)
    if drift:
        print(f"NOTE: {drift} lot(s) differ list-for-list from the model although C03's predicates hold on the real coordinates")
    smp = next((i for i in items if i["lists"] and i["lists"][0]), items[0])
    chk.sample({"gen": smp["gen"], "lot": smp["lot"], "unit": smp["unit"], "first_list": (smp["lists"][0][:6] if smp["lists"] else [])})
    # random real-valued lots
    seeds = [chk.seed * 131 + i for i in range(32 if t == "quick" else 1200)]
    nr = 0
    for batch in parallel_map(_random_lots, seeds):
        for r in batch:
            nr += 1
            if r["bad"]:
                if set(r["bad"]) == {"SpacingAtLeastBmin"} and is_f15(r["gen"], r["lot"], r["bad"]["SpacingAtLeastBmin"]):
                    chk.violation(f"C03: bi-rectangle list with the row count bumped by float noise (spacing below b_min) on random lot {r['lot']}: the defect F15 has returned", r, known_key="F15")
                else:
                    chk.violation(f"C03: generator {r['gen']} on random lot {r['lot']}: {list(r['bad'])}", r)
    # the recorded input of the listed finding F15 (reported as KNOWN-FINDING while it reproduces)
    lot = (120.0, 100.5, 4.0, 10.0, 10.0)     # l2 = 100.5, b_min = 4: the largest admissible division count k = 25 is recomputed as 26 -> spacing 3.865 m
    try:
        bad = predicates("birect", call_generator("birect", *lot), lot[0], lot[1], lot[2])
        if set(k for k, v in bad.items() if v) == {"SpacingAtLeastBmin"} and is_f15("birect", lot, bad["SpacingAtLeastBmin"]):
            chk.violation(f"C03: spacing below b_min on the recorded F15 lot {lot}: the defect F15 has returned", {"lot": lot}, known_key="F15")
    except Exception as ex:  # noqa: BLE001
        chk.violation(f"C03: bi-rectangle generator raised {type(ex).__name__} on the recorded F15 lot {lot}", {"lot": lot})
    chk.note("random_real_lots", nr)
    chk.evaluations += nr
    chk.exhaustive = True
    return chk.finish()
