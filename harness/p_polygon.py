"""C16 (point-in-polygon exact) and C04 (polygon-constrained fields): Polygon.tla + replay + random real polygons."""
from __future__ import annotations

import copy
import json
import math
import random
from fractions import Fraction

from .core import Check, MachineryError, import_repo, parallel_map, require_tlc_ok, run_tlc, tier
from .tla import tla, tla_set

SCALE = 5.0  # metres per doubled-lattice unit in the replay (keeps every off-edge lattice point outside the tolerance band)

_ZA = [[2, 2], [4, 2], [4, 4], [2, 4]]
_ZB = [[0, 0], [2, 0], [0, 2]]
_ZC = [[2, 2], [6, 4], [2, 6]]
_ZD = [[4, 0], [6, 0], [6, 2]]
# LISTS of no-go zones as they are handed to remove_cutout in one call: none, one, and several in different orders (a grid point on
# the boundary of a zone that is NOT the last of the list is the interesting case)
NOGOS = [[], [_ZA], [_ZB], [_ZC], [_ZA, _ZB], [_ZB, _ZA], [_ZA, _ZD, _ZB], [_ZC, _ZD]]
# further property outlines given after the built one
EXTRAS = [[], [[[4, 4], [6, 4], [6, 6], [4, 6]]]]


# ---- exact classifier: Python transliteration of Polygon.tla Class (checked against TLC's tables in the replay) ----
def cross(a, b, p):
    return (b[0] - a[0]) * (p[1] - a[1]) - (b[1] - a[1]) * (p[0] - a[0])


def exact_class(q, p):
    n = len(q)
    for k in range(n):
        a, b = q[k], q[(k + 1) % n]
        if cross(a, b, p) == 0 and min(a[0], b[0]) <= p[0] <= max(a[0], b[0]) and min(a[1], b[1]) <= p[1] <= max(a[1], b[1]):
            return 0
    c = 0
    for k in range(n):
        a, b = q[k], q[(k + 1) % n]
        cr = cross(a, b, p)
        if (a[1] <= p[1] < b[1] and cr > 0) or (b[1] <= p[1] < a[1] and cr < 0):
            c += 1
    return 1 if c % 2 == 1 else -1


def robust_class(qf, q_frac, p):
    """exact_class decided in floats when every orientation test is far from zero, in exact rationals otherwise."""
    n = len(qf)
    for k in range(n):
        a, b = qf[k], qf[(k + 1) % n]
        cr = (b[0] - a[0]) * (p[1] - a[1]) - (b[1] - a[1]) * (p[0] - a[0])
        if abs(cr) < 1e-6 * (1.0 + abs(b[0] - a[0]) + abs(b[1] - a[1])) * (1.0 + abs(p[0]) + abs(p[1])):
            return exact_class(q_frac, (Fraction(repr(float(p[0]))), Fraction(repr(float(p[1])))))
    return exact_class(qf, p)


def metric_excess(q, p):
    """The code's own on-edge metric: min over edges of d(v1,p)+d(v2,p)-d(v1,v2) (float)."""
    best = float("inf")
    n = len(q)
    for k in range(n):
        a, b = q[k], q[(k + 1) % n]
        e = math.dist(a, p) + math.dist(b, p) - math.dist(a, b)
        best = min(best, abs(e))
    return best


def run_model(chk: Check, maxv: int, nogos, invs, emit: bool, extras=([],)):
    mod = f"""---- MODULE MC_Polygon ----
EXTENDS Polygon
c_NoGos == {tla_set([[[tuple(v) for v in g] for g in zones] for zones in nogos])}
c_Extras == {tla_set([[[tuple(v) for v in g] for g in outlines] for outlines in extras])}
====
"""
    cfg = f"""INIT Init
NEXT Next
CHECK_DEADLOCK FALSE
CONSTANTS
 L = 4
 MaxV = {maxv}
 NoGos <- c_NoGos
 Extras <- c_Extras
""" + "".join(f"INVARIANT {i}\n" for i in invs) + ("INVARIANT Emit\n" if emit else "")
    res = run_tlc("MC_Polygon", cfg, extra_modules={"MC_Polygon.tla": mod}, coverage=not emit, workers=1 if emit else "auto",
                  want_prints=emit, timeout=6000)
    chk.add_tlc(res)
    if res.violated:
        return res, [{"invariant": res.violated, "state": res.stdout.split("\nState ")[-1][:1500]}]
    require_tlc_ok(res, f"Polygon maxv={maxv}")
    if not emit:
        for a in ("Add", "Close"):
            if not res.coverage.get(a) or res.coverage[a][1] == 0:
                raise MachineryError(f"vacuity: action {a} never taken")
    return res, []


def tab(v):
    """ToJson renders a function over 0..n as an object with string keys: turn it back into nested lists."""
    if isinstance(v, dict):
        return [tab(v[str(i)]) for i in range(len(v))]
    return v


def _variants(poly):
    n = len(poly)
    out = []
    for r in range(n):
        rot = poly[r:] + poly[:r]
        out.append(rot)
        out.append([rot[0]] + rot[1:][::-1])
    return out


def _replay_c16(item):
    import_repo()
    from ghedesigner.shape import point_polygon_check  # noqa: PLC0415

    poly, cls = item["poly"], tab(item["cls"])
    bad = []
    n = 0
    pts = [(x, y) for x in range(7) for y in range(7)]
    for p in pts:                       # the Python mirror must reproduce TLC's table (binds the mirror to the spec)
        if exact_class(poly, p) != cls[p[0]][p[1]]:
            raise MachineryError(f"exact_class mirror disagrees with TLC on {poly} {p}")
    for var in _variants(poly):
        contour = [(v[0] * SCALE, v[1] * SCALE) for v in var]
        for p in pts:
            got = point_polygon_check(contour, (p[0] * SCALE, p[1] * SCALE))
            n += 1
            if got != cls[p[0]][p[1]]:
                bad.append({"contour": contour, "point": (p[0] * SCALE, p[1] * SCALE), "code": got, "exact": cls[p[0]][p[1]]})
                if len(bad) > 3:
                    return n, bad
    return n, bad


def rand_polygon(rnd: random.Random, nmax=8):
    """Random simple polygon (star-shaped around a centre, then possibly made non-convex), real coordinates >= 0."""
    n = rnd.randint(3, nmax)
    cx, cy = rnd.uniform(40, 80), rnd.uniform(40, 80)
    angs = sorted(rnd.uniform(0, 2 * math.pi) for _ in range(n))
    pts = []
    for a in angs:
        r = rnd.uniform(8, 38)
        pts.append((round(cx + r * math.cos(a), 3), round(cy + r * math.sin(a), 3)))
    if len(set(pts)) < n:
        return rand_polygon(rnd, nmax)
    if rnd.random() < 0.5:
        pts.reverse()
    k = rnd.randrange(n)
    return pts[k:] + pts[:k]


def _b2_c16(seed):
    import_repo()
    from ghedesigner.shape import point_polygon_check  # noqa: PLC0415

    rnd = random.Random(seed)
    bad = []
    n = 0
    band = 0
    for _ in range(60):
        poly = rand_polygon(rnd)
        fpoly = [(Fraction(str(x)), Fraction(str(y))) for x, y in poly]
        for _ in range(60):
            mode = rnd.random()
            if mode < 0.6:
                p = (round(rnd.uniform(0, 120), 3), round(rnd.uniform(0, 120), 3))
            elif mode < 0.7:      # level with a vertex
                v = rnd.choice(poly)
                p = (round(rnd.uniform(0, 120), 3), v[1])
            elif mode < 0.8:      # ALMOST level with a vertex: closer than the edge tolerance (0.001; 0.01 through remove_cutout) but not level
                v = rnd.choice(poly)
                p = (round(rnd.uniform(0, 120), 3), v[1] + rnd.choice([-1, 1]) * rnd.choice([1e-9, 3e-5, 4e-4, 9e-4, 4e-3, 9e-3]))
            elif mode < 0.9:      # exactly a vertex
                p = rnd.choice(poly)
            else:                 # exactly on an edge (midpoint; exactly representable only sometimes -> judged by band rule)
                i = rnd.randrange(len(poly))
                a, b = poly[i], poly[(i + 1) % len(poly)]
                p = ((a[0] + b[0]) / 2, (a[1] + b[1]) / 2)
            ex = metric_excess(poly, p)
            got = point_polygon_check(poly, p)
            n += 1
            tol = 0.001
            if ex < tol * 0.999:
                want = 0
            elif ex > tol * 1.001 and ex > 10 * tol:
                want = exact_class(fpoly, (Fraction(str(p[0])) if isinstance(p[0], float) else Fraction(p[0]), Fraction(str(p[1])) if isinstance(p[1], float) else Fraction(p[1])))
                if want == 0:
                    continue
            else:
                band += 1
                if ex > tol * 1.001 and got == 0 and exact_class(fpoly, (Fraction(str(p[0])), Fraction(str(p[1])))) != 0:
                    bad.append({"contour": poly, "point": p, "code": got, "exact": "not on edge (metric excess %.3g > tol)" % ex})
                continue
            if got != want:
                bad.append({"contour": poly, "point": p, "code": got, "exact": want, "excess": ex})
    return n, band, bad


def run_c16() -> int:
    chk = Check("C16")
    t = tier()
    maxv = 5 if t == "quick" else 6
    chk.rule = ("TLC builds every simple polygon with 3..%d vertices on the 4x4 lattice (one canonical vertex sequence per polygon) and classifies all 49 "
                "half-lattice points with two independent rays; the real point_polygon_check is called on every rotation and both orientations of every polygon "
                "for every point; distinct = (polygon, point) pairs" % maxv)
    chk.trusted = ["TLC 1.8.0", "replay scales the doubled lattice by 5 m so that off-edge lattice points are outside the 0.001 tolerance band"]
    _, found = run_model(chk, maxv, [[]], ["RaysAgree", "BuiltSimple"], emit=False)
    for f in found:
        chk.violation(f"Polygon.tla invariant {f['invariant']} violated", f)
    gen_v = maxv if t == "thorough" else 5
    res, _ = run_model(chk, gen_v, [[]], [], emit=True)
    items = res.prints
    if len(items) < 100:
        raise MachineryError("polygon generator printed too little")
    out = parallel_map(_replay_c16, items, chunksize=64)
    total = 0
    for it, (n, bad) in zip(items, out):
        total += n
        for b in bad[:1]:
            chk.violation(f"point_polygon_check({b['contour']}, {b['point']}) = {b['code']} but the crossing-number definition gives {b['exact']}", b)
    chk.traces += len(items)
    chk.evaluations += total
    chk.nontrivial = set(range(min(total, 10**7)))  # every (variant, point) pair is a distinct case
    chk.note("polygons", len(items))
    chk.note("classifications_replayed", total)
    chk.sample({"polygon": items[0]["poly"], "class_table": tab(items[0]["cls"])})
    # B2: random real-valued polygons, points away from the tolerance band
    seeds = [chk.seed * 1000 + i for i in range(16 if t == "quick" else 160)]
    n2 = band = 0
    for n, bd, bad in parallel_map(_b2_c16, seeds):
        n2 += n
        band += bd
        for b in bad[:2]:
            chk.violation(f"random polygon: point_polygon_check({b['contour']}, {b['point']}) = {b['code']}, exact {b['exact']}", b)
    chk.note("random_real_classifications", n2)
    chk.note("random_points_in_tolerance_band_not_judged", band)
    chk.evaluations += n2
    chk.exhaustive = True
    return chk.finish()


# ------------------------------------------------------------------------------------------------
# C04
# ------------------------------------------------------------------------------------------------
def _replay_c04(item):
    import_repo()
    from ghedesigner.feature_recognition import remove_cutout  # noqa: PLC0415

    poly, nogo, keep = item["poly"], item["nogo"], tab(item["keep"])
    extra = item.get("extra") or []
    pts = [(x * SCALE, y * SCALE) for x in range(7) for y in range(7)]
    bad = []
    for var in _variants(poly)[:: max(1, len(poly) // 2)]:
        contour = [[v[0] * SCALE, v[1] * SCALE] for v in var]
        outlines = [contour] + [[[v[0] * SCALE, v[1] * SCALE] for v in o] for o in extra]
        kept = remove_cutout(pts, outlines, remove_inside=False, keep_contour=True)
        if nogo and kept:
            kept = remove_cutout(kept, [[[v[0] * SCALE, v[1] * SCALE] for v in z] for z in nogo], remove_inside=True, keep_contour=False)
        ks = set(kept)
        for x in range(7):
            for y in range(7):
                want = keep[x][y] == 1
                if ((x * SCALE, y * SCALE) in ks) != want:
                    bad.append({"property": contour, "nogo": nogo, "point": (x * SCALE, y * SCALE), "kept_by_code": not want})
                    return bad
    return bad


def _domain_via_manager(prop, ng, b_min, b_max_x, b_max_y, rnd):
    """The candidate fields as a user gets them: manager setter -> geometry object -> set_design -> DesignBiRectangleConstrained. A single
    outline / zone is sometimes given in the bare form [[x, y], ...] that the constructor accepts."""
    import contextlib  # noqa: PLC0415
    import io  # noqa: PLC0415
    import warnings  # noqa: PLC0415

    from ghedesigner.manager import GHEManager  # noqa: PLC0415

    from .p_history import SLOTS, apply_set  # noqa: PLC0415

    m = GHEManager()
    with warnings.catch_warnings(), contextlib.redirect_stdout(io.StringIO()):
        warnings.simplefilter("ignore")
        for s_ in SLOTS:
            if s_ != "geom":
                apply_set(m, s_, 1, nominal=1)
        prop_arg = prop[0] if len(prop) == 1 and rnd.random() < 0.5 else prop
        ng_arg = ng[0] if len(ng) == 1 and rnd.random() < 0.6 else ng
        m.set_geometry_constraints_bi_rectangle_constrained(b_min=b_min, b_max_x=b_max_x, b_max_y=b_max_y, property_boundary=prop_arg, no_go_boundaries=ng_arg)
        m.set_design(flow_rate=0.3, flow_type_str="borehole")
    return m._design.coordinates_domain_nested, m._design.fieldDescriptors


def _b2_c04(seed):
    """End to end: polygonal_land_constraint on random real-valued outlines; every candidate judged with the exact classifier."""
    import_repo()
    from ghedesigner.domains import bi_rectangle_nested, polygonal_land_constraint  # noqa: PLC0415
    from ghedesigner.feature_recognition import determine_largest_rectangle  # noqa: PLC0415

    rnd = random.Random(seed)
    bad = []
    stats = {"fields": 0, "points": 0, "dropped_clear": 0, "lists": 0}
    tol = 0.01
    for _ in range(6):
        outlines = [rand_polygon(rnd, 7)]
        if rnd.random() < 0.45:
            dx, dy = rnd.choice([(60.0, 0.0), (60.0, 25.0), (0.0, 70.0), (55.0, 60.0)])
            small = [(round(0.5 * x + dx, 3), round(0.5 * y + dy, 3)) for x, y in rand_polygon(rnd, 5)]
            outlines.append(small)
            if rnd.random() < 0.5:
                outlines.reverse()         # the outline that reaches the largest x / y is not always the last one
        nogos = []
        if rnd.random() < 0.6:
            cx = sum(p[0] for p in outlines[0]) / len(outlines[0])
            cy = sum(p[1] for p in outlines[0]) / len(outlines[0])
            r = rnd.uniform(2, 6)
            if rnd.random() < 0.4:
                # a zone that overhangs the bounding rectangle of the property on the +x / +y side but still overlaps the property
                bx = max(p[0] for o in outlines for p in o) + rnd.uniform(3, 15)
                by = max(p[1] for o in outlines for p in o) + rnd.uniform(3, 15)
                if rnd.random() < 0.5:
                    nogos.append([(round(cx, 3), round(cy - r, 3)), (round(bx, 3), round(cy - r, 3)), (round(bx, 3), round(cy + r, 3)), (round(cx, 3), round(cy + r, 3))])
                else:
                    nogos.append([(round(cx - r, 3), round(cy, 3)), (round(cx + r, 3), round(cy, 3)), (round(cx + r, 3), round(by, 3)), (round(cx - r, 3), round(by, 3))])
            else:
                nogos.append([(round(cx - r, 3), round(cy - r, 3)), (round(cx + r, 3), round(cy - r, 3)), (round(cx + r, 3), round(cy + r, 3)), (round(cx - r, 3), round(cy + r, 3))])
        b_min, b_max_x, b_max_y = 5.0, rnd.choice([10.0, 12.5, 15.0]), rnd.choice([10.0, 12.5, 15.0])
        prop = [[list(p) for p in o] for o in outlines]
        ng = [[list(p) for p in o] for o in nogos]
        try:
            if rnd.random() < 0.5:
                dom, desc = polygonal_land_constraint(b_min, b_max_x, b_max_y, prop, ng)
            else:
                dom, desc = _domain_via_manager(copy.deepcopy(prop), copy.deepcopy(ng), b_min, b_max_x, b_max_y, rnd)
        except ValueError:
            continue    # an empty list after the cut (reorder_domain on nothing): lots too thin for any borehole
        # the grid spans [0, max x] x [0, max y] over ALL vertices of ALL outlines - computed here, not with the library's helper
        length, width = max(p[0] for o in outlines for p in o), max(p[1] for o in outlines for p in o)
        rect = determine_largest_rectangle(prop)
        if (max(p[0] for p in rect), max(p[1] for p in rect)) != (length, width) or (min(p[0] for p in rect), min(p[1] for p in rect)) != (min(p[0] for o in outlines for p in o), min(p[1] for o in outlines for p in o)):
            bad.append({"what": "determine_largest_rectangle is not the bounding rectangle of all property outlines", "rect": [list(map(float, p)) for p in rect], "outlines": outlines})
        raw, _ = bi_rectangle_nested(length, width, b_min, b_max_x, b_max_y)
        fo = [[(Fraction(str(x)), Fraction(str(y))) for x, y in o] for o in outlines]
        fn = [[(Fraction(str(x)), Fraction(str(y))) for x, y in o] for o in nogos]

        def cls_o(i, p):
            return robust_class(outlines[i], fo[i], p)

        def cls_n(i, p):
            return robust_class(nogos[i], fn[i], p)

        def clear_in_prop(p):
            return any(cls_o(i, p) == 1 and metric_excess(outlines[i], p) > 10 * tol for i in range(len(fo)))

        def clear_out_nogo(p):
            return all(cls_n(i, p) == -1 and metric_excess(nogos[i], p) > 10 * tol for i in range(len(fn)))

        for li, lst in enumerate(dom):
            stats["lists"] += 1
            sizes = [len(f) for f in lst]
            if sizes != sorted(sizes):
                bad.append({"what": "candidate list not ordered by borehole count", "sizes": sizes, "outlines": outlines})
            for f in lst:
                stats["fields"] += 1
                for p in f:
                    stats["points"] += 1
                    p = (float(p[0]), float(p[1]))
                    inside_or_edge = any(cls_o(i, p) >= 0 or metric_excess(outlines[i], p) < tol for i in range(len(fo)))
                    in_nogo = any(cls_n(i, p) >= 0 for i in range(len(fn)))
                    if not inside_or_edge:
                        bad.append({"what": "borehole outside every property polygon", "point": list(map(float, p)), "outlines": outlines})
                    if in_nogo:
                        bad.append({"what": "borehole inside or on a no-go polygon", "point": list(map(float, p)), "nogo": nogos})
        # converse: clearly-inside grid points are kept (compare raw candidate k of list li with the cut one by coordinates)
        for li, rawlst in enumerate(raw):
            cut_sets = [set(map(tuple, f)) for f in dom[li]] if li < len(dom) else []
            for rf in rawlst:
                want = [tuple(p) for p in rf if clear_in_prop((float(p[0]), float(p[1]))) and clear_out_nogo((float(p[0]), float(p[1])))]
                if not want:
                    continue
                # the cut field that came from rf contains all of rf's kept points: find a cut field that is a subset of rf
                rs = set(map(tuple, rf))
                cands = [c for c in cut_sets if c <= rs and set(want) <= c]
                if not cands:
                    stats["dropped_clear"] += 1
                    bad.append({"what": "grid borehole clearly inside the property and clear of no-go zones was dropped", "want_first": list(map(float, want[0])), "outlines": outlines, "nogos": nogos})
        if len(bad) > 5:
            break
    return stats, bad


def run_c04() -> int:
    chk = Check("C04")
    t = tier()
    maxv = 4 if t == "quick" else 5
    chk.rule = ("TLC builds every simple property polygon with 3..%d vertices on the 4x4 lattice, pairs it with each of %d LISTS of no-go zones (none, one, several in different orders) and an optional second outline, and computes the "
                "kept set of all 49 half-lattice points; remove_cutout is replayed on the same cases; polygonal_land_constraint runs end to end on random "
                "real-valued outlines and is judged with the exact rational classifier" % (maxv, len(NOGOS)))
    chk.trusted = ["exact rational classifier harness/p_polygon.exact_class (bound to Polygon.tla by the C16 replay)", "TLC 1.8.0"]
    _, found = run_model(chk, maxv, NOGOS, ["KeptInsideProperty", "NothingClearDropped"], emit=False, extras=EXTRAS)
    for f in found:
        chk.violation(f"Polygon.tla invariant {f['invariant']} violated", f)
    res, _ = run_model(chk, maxv, NOGOS, [], emit=True, extras=EXTRAS)
    items = res.prints
    rnd = random.Random(chk.seed)
    cap = 4000 if t == "quick" else 40000
    if len(items) > cap:
        items = rnd.sample(items, cap)
    for it, bad in zip(items, parallel_map(_replay_c04, items, chunksize=32)):
        for b in bad[:1]:
            chk.violation(f"remove_cutout keeps/drops {b['point']} against the model (property {b['property']}, no-go {b['nogo']})", b)
    chk.traces += len(items)
    chk.evaluations += len(items) * 49
    chk.nontrivial = {(tuple(map(tuple, i["poly"])), json.dumps(i["nogo"]), json.dumps(i.get("extra"))) for i in items}
    chk.sample({"property": items[0]["poly"], "nogo": items[0]["nogo"], "keep_table": tab(items[0]["keep"])})
    seeds = [chk.seed * 977 + i for i in range(16 if t == "quick" else 320)]
    agg = {"fields": 0, "points": 0, "dropped_clear": 0, "lists": 0}
    for stats, bad in parallel_map(_b2_c04, seeds):
        for k in agg:
            agg[k] += stats[k]
        for b in bad[:2]:
            chk.violation(f"polygonal_land_constraint: {b['what']}", b)
    chk.note("end_to_end_random", agg)
    chk.evaluations += agg["points"]
    chk.exhaustive = True
    return chk.finish()
