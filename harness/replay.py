"""./check <ID> --replay <path>: re-run exactly the case stored in a replay file written by a failing check."""
from __future__ import annotations

import json
import sys


def run(pid: str, path: str) -> int:
    d = json.load(open(path))
    print(f"replay {pid}: {d.get('what')}")
    data = d.get("data") or {}
    if isinstance(data, dict) and "memo" in data and "cfg" in data and "mode" in data:
        # a TLC behaviour of Search.tla: run it again through the real search classes and judge it
        from . import doubles, judge, p_search  # noqa: PLC0415

        beh = {"mode": data["mode"], "cfg": data["cfg"], "memo": data["memo"], "rwgrid": data.get("rwgrid", 8)}
        rec = doubles.run_behaviour(beh, max_iter=data.get("max_iter"))
        ver = judge.judge(data["mode"], data["cfg"], rec["oracle"], rec)
        ver["LogRowConsistent"] = not judge.judge_rows(rec["rows"])
        invs = p_search.INVS.get(pid, [])
        falses = [k for k in invs if ver.get(k) is False]
        print("events :", [(e["e"], e["f"], e.get("h"), e.get("v", e.get("oc"))) for e in rec["log"]])
        print("outcome:", rec["out"])
        print("verdict:", {k: ver.get(k) for k in invs})
        if falses:
            print(f"VIOLATION property={pid} replay={path}")
            return 1
        print("the stored case no longer violates the property")
        return 0
    # other kinds of cases: show what was stored and re-run the quick check (its generators are seeded and deterministic)
    print(json.dumps(data, indent=1, default=str)[:4000])
    from .registry import REGISTRY  # noqa: PLC0415

    return REGISTRY[pid]()
