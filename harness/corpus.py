"""B2: real end-to-end design runs (real physics) recorded from OUTSIDE the repository code and validated by TLC (SystemTrace.tla).

The recorder wraps, in the harness process only: <search class>.calculate_excess, GHE.size, ground_heat_exchangers.solve_root.
Nothing in /repo is changed. One trace per run; a corpus is cached under build/corpus/<fingerprint-tier-seed>.json.
"""
from __future__ import annotations

import contextlib
import copy
import io
import json
import math
import random
import re
import shutil
import tempfile
import warnings
from pathlib import Path

from .core import BUILD, MachineryError, import_repo, parallel_map, repo_fingerprint, require_tlc_ok, run_tlc, scratch

WATCHDOG_S = 420


class _SkipReport(Exception):
    pass


def clip(x):
    if x != x:  # NaN
        return 2_000_000_000
    return int(max(-2e9, min(2e9, round(x))))


def uK(x):
    return clip(x * 1e6)


def mm(x):
    return clip(x * 1000.0)


def profile(amp, kind, rnd, peak_hour=None):
    out = []
    ph = rnd.uniform(0, 2 * math.pi)
    if peak_hour is not None:
        # the seasonal extreme (coldest for a heating profile, hottest otherwise) falls on this hour of the year
        ph = (math.pi / 2 if kind == "heating" else 3 * math.pi / 2) - 2 * math.pi * peak_hour / 8760
    for h in range(8760):
        season = math.sin(2 * math.pi * h / 8760 + ph)
        hod = h % 24
        # sharp daily peaks (a cold morning, a hot afternoon) keep the peak durations short, as building loads do;
        # a slow weekly modulation puts the monthly peak on varying days
        week = 1.0 + 0.25 * math.sin(2 * math.pi * h / (24 * 9.3) + ph)
        morning = math.exp(-((hod - 6.5) / 1.6) ** 2) * week
        afternoon = math.exp(-((hod - 15.5) / 1.8) ** 2) * week
        if kind == "balanced":
            v = 0.7 * season + (0.5 * morning if season > 0 else -0.5 * afternoon)
        elif kind == "heating":
            v = 0.5 + 0.4 * season + 0.5 * morning
        elif kind == "cooling":
            v = -0.5 + 0.4 * season - 0.5 * afternoon
        elif kind == "spiky":
            v = 0.4 * season + (0.3 * morning if season > 0 else -0.3 * afternoon) + (2.5 if (h % 731) == 17 else 0.0) - (2.0 if (h % 977) == 400 else 0.0)
        else:
            v = 0.7
        out.append(round(amp * v, 3))
    return out


PROP = [[0.0, 0.0], [60.0, 0.0], [60.0, 45.0], [30.0, 55.0], [0.0, 45.0]]
NOGO = [[[20.0, 20.0], [30.0, 20.0], [30.0, 30.0], [20.0, 30.0]]]
RW_PROP = [[1.0, 1.0], [31.0, 1.0], [31.0, 21.0], [16.0, 29.0], [1.0, 21.0]]


def scenarios(t: str, seed: int):
    rnd = random.Random(seed)
    methods = ["NEARSQUARE", "RECTANGLE", "BIRECTANGLE", "BIZONEDRECTANGLE", "BIRECTANGLECONSTRAINED", "ROWWISE"]
    pipes = ["SINGLEUTUBE", "DOUBLEUTUBEPARALLEL", "DOUBLEUTUBESERIES", "COAXIAL"]
    out = []
    n = 24 if t == "quick" else 160
    regimes = ["normal", "normal", "normal", "small", "big-stop", "big-continue", "tiny-continue", "cap"]
    for i in range(n):
        meth = methods[i % 6]
        sc = {"id": i, "method": meth, "pipe": pipes[(i // 6 + i) % 4], "flow": "BOREHOLE" if (i // 3) % 2 == 0 else "SYSTEM",
              "regime": regimes[(i * 5 + i // 6) % len(regimes)], "kind": ["balanced", "heating", "cooling", "spiky", "constant"][(i * 3 + i // 5) % 5],
              "months": [12, 12, 25, 60, 12, 240][(i + i // 6) % 6] if t == "thorough" else [12, 12, 25][(i + i // 6) % 3], "seed": seed * 100003 + i}
        if meth == "ROWWISE":
            # removal branch (1X1 feasible / borehole-count bisection) and too-big branch; the spacing-bisection branch takes minutes: thorough tier only
            sc["regime"] = ["small", "rw-removal", "big-continue", "rw-removal", "big-stop"][(i // 6) % 5]
        out.append(sc)
    # spacing windows that admit no whole number of rows (87 m with b_min = b_max = 5 m): no candidate field; the run must end in a ValueError (F23)
    for i, meth in enumerate(["RECTANGLE", "BIRECTANGLE", "BIZONEDRECTANGLE"]):
        out.append({"id": 2000 + i, "method": meth, "pipe": "SINGLEUTUBE", "flow": "BOREHOLE", "regime": "no-count", "kind": "balanced", "months": 12, "seed": seed * 11 + i})
    # horizons that are not whole years and END in the month of the seasonal extreme (the binding peak is in the LAST month of the horizon)
    ends = [(20, "cooling"), (14, "heating"), (19, "cooling"), (13, "heating"), (22, "balanced"), (17, "cooling")]
    for i, (months, kind) in enumerate(ends if t == "thorough" else ends[:4]):
        out.append({"id": 3000 + i, "method": ["NEARSQUARE", "RECTANGLE"][i % 2], "pipe": pipes[i % 4], "flow": "BOREHOLE" if i % 2 == 0 else "SYSTEM", "regime": "normal",
                    "kind": kind, "months": months, "peak_in_last_month": True, "seed": seed * 13 + i})
    if t == "thorough":
        for i in range(4):
            out.append({"id": 1000 + i, "method": "ROWWISE", "pipe": "SINGLEUTUBE", "flow": "BOREHOLE", "regime": "rw-bisect", "kind": "balanced", "months": 12, "seed": seed * 7 + i})
    return out


def build(sc):
    import_repo()
    from ghedesigner.manager import GHEManager  # noqa: PLC0415

    rnd = random.Random(sc["seed"])
    u = rnd.uniform
    m = GHEManager()
    m.set_fluid("Water", 0.0, 20.0) if rnd.random() < 0.6 else m.set_fluid("PropyleneGlycol", 20.0, 20.0)
    m.set_grout(conductivity=round(u(0.8, 2.0), 3), rho_cp=3901000.0)
    m.set_soil(conductivity=round(u(1.4, 3.2), 3), rho_cp=round(u(2.0e6, 2.8e6), 0), undisturbed_temp=round(u(10, 19), 2))
    p = sc["pipe"]
    if p == "COAXIAL":
        m.set_coaxial_pipe(inner_pipe_d_in=0.0442, inner_pipe_d_out=0.050, outer_pipe_d_in=0.0974, outer_pipe_d_out=0.11, roughness=1e-6, conductivity_inner=0.4, conductivity_outer=0.4, rho_cp=1542000.0)
        dia = 0.175
    else:
        kw = dict(inner_diameter=0.03404, outer_diameter=0.04216, shank_spacing=0.024 if p != "SINGLEUTUBE" else 0.01856, roughness=1e-6, conductivity=0.4, rho_cp=1542000.0)
        {"SINGLEUTUBE": m.set_single_u_tube_pipe, "DOUBLEUTUBEPARALLEL": m.set_double_u_tube_pipe_parallel, "DOUBLEUTUBESERIES": m.set_double_u_tube_pipe_series}[p](**kw)
        dia = 0.15
    hmax, hmin = round(u(110, 150), 1), round(u(45, 70), 1)
    m.set_borehole(height=hmax, buried_depth=2.0, diameter=dia)
    reg = sc["regime"]
    cap = None
    cont = reg in ("big-continue", "tiny-continue") or (reg == "cap" and rnd.random() < 0.5)
    if reg == "cap":
        cap = rnd.choice([6, 10, 15])
    # temperature limits: the usual 35 / 5 C and others, including a limit of exactly 0 C (freeze limit of a water loop) and a negative one
    by_kind = {"balanced": [(35.0, 0.0), (35.0, 5.0), (30.0, 0.0)], "heating": [(35.0, 5.0), (35.0, 0.0), (35.0, -2.0)], "cooling": [(35.0, 5.0), (32.0, 5.0), (40.0, 0.0)],
               "spiky": [(35.0, 0.0), (35.0, 5.0)], "constant": [(35.0, 5.0), (40.0, 0.0)]}[sc["kind"]]
    max_eft, min_eft = by_kind[(sc["id"] // 5) % len(by_kind)]
    m.set_simulation_parameters(num_months=sc["months"], max_eft=max_eft, min_eft=min_eft, max_height=hmax, min_height=hmin, max_boreholes=cap, continue_if_design_unmet=cont)
    amp = {"normal": u(2500, 7000), "cap": u(4000, 9000), "small": u(600, 1500), "tiny-continue": u(20, 60), "big-stop": u(1.5e5, 3e5), "big-continue": u(1.5e5, 3e5), "rw-bisect": 12400.0, "rw-removal": u(3500, 9000), "no-count": u(2500, 7000)}[reg]
    peak_hour = None
    if sc.get("peak_in_last_month"):
        starts = [0, 744, 1416, 2160, 2880, 3624, 4344, 5088, 5832, 6552, 7296, 8016]
        peak_hour = starts[(sc["months"] - 1) % 12] + 14 * 24
    m.set_ground_loads_from_hourly_list(profile(amp, sc["kind"], rnd, peak_hour))
    meth = sc["method"]
    if reg == "no-count":
        nc = {"length": 87.0, "width": 40.0, "b_min": 5.0}
        if meth == "RECTANGLE":
            m.set_geometry_constraints_rectangle(b_max=5.0, **nc)
        elif meth == "BIRECTANGLE":
            m.set_geometry_constraints_bi_rectangle(b_max_x=5.0, b_max_y=5.2, **nc)
        else:
            m.set_geometry_constraints_bi_zoned_rectangle(b_max_x=5.2, b_max_y=5.0, **nc)
    elif meth == "NEARSQUARE":
        m.set_geometry_constraints_near_square(b=5.0, length=25.0)
    elif meth == "RECTANGLE":
        m.set_geometry_constraints_rectangle(length=24.0, width=18.0, b_min=3.0, b_max=8.0)
    elif meth == "BIRECTANGLE":
        m.set_geometry_constraints_bi_rectangle(length=24.0, width=18.0, b_min=4.0, b_max_x=8.0, b_max_y=9.0)
    elif meth == "BIZONEDRECTANGLE":
        m.set_geometry_constraints_bi_zoned_rectangle(length=24.0, width=18.0, b_min=4.0, b_max_x=8.0, b_max_y=9.0)
    elif meth == "BIRECTANGLECONSTRAINED":
        m.set_geometry_constraints_bi_rectangle_constrained(b_min=6.0, b_max_x=12.0, b_max_y=14.0, property_boundary=copy.deepcopy(PROP), no_go_boundaries=copy.deepcopy(NOGO))
    else:
        m.set_geometry_constraints_rowwise(perimeter_spacing_ratio=0.8 if rnd.random() < 0.3 else None, max_spacing=12.0, min_spacing=6.0, spacing_step=0.5, max_rotation=90.0, min_rotation=-90.0,
                                           rotate_step=45.0, property_boundary=copy.deepcopy(RW_PROP), no_go_boundaries=[])
    vb = round(u(0.15, 0.5), 3)
    fr = vb if sc["flow"] == "BOREHOLE" else round(vb * rnd.choice([8, 15, 25]), 3)
    m.set_design(flow_rate=fr, flow_type_str=sc["flow"])
    # the mass flow the user asked for: per borehole (BOREHOLE) or shared by the whole field (SYSTEM), in mg/s
    info = {"method": meth, "flow": sc["flow"], "V_dmLps": clip(fr * 1e4), "flow_mgps": clip(fr / 1000.0 * float(m._fluid.rho) * 1e6), "maxAllow_uK": uK(max_eft), "minAllow_uK": uK(min_eft), "Hmin_mm": mm(hmin), "Hmax_mm": mm(hmax),
            "cap": cap or 0, "cont": bool(cont), "months": sc["months"]}
    return m, info


def record_run(sc):
    """Run one real design with recorders installed; return the trace (list of events) + description."""
    import_repo()
    import ghedesigner.ground_heat_exchangers as ghx  # noqa: PLC0415
    import ghedesigner.search_routines as sr  # noqa: PLC0415
    from ghedesigner.enums import TimestepType  # noqa: PLC0415

    import signal  # noqa: PLC0415

    events = []
    solve = {}
    steps = {"lists": [], "log": [], "outcome": None}      # the run in the vocabulary of Search.tla (field ids <<list, position>>)
    idmap = {}
    state = {"in_eval": 0}

    rw = {"lower_n": None}

    def fid_of(coords):
        f = idmap.get(id(coords))
        if f is None and sc["method"] == "ROWWISE" and rw["lower_n"] is not None:
            n = len(coords)
            if n == 1 and list(coords[0]) == [0, 0]:
                return ("one",)
            if n == rw["lower_n"]:
                return ("s", 1024, 0)
            if n < rw["lower_n"]:
                return ("r", n, 0)
        return f

    real_solve = ghx.solve_root
    real_size = ghx.GHE.size
    real_ce = {}

    def solve_rec(x, f, lower=None, upper=None, **kw):
        vals = []

        def g(h):
            v = f(h)
            vals.append((h, v))
            return v

        r = real_solve(x, g, lower=lower, upper=upper, **kw)
        lo, hi = vals[0][1], vals[1][1]
        oc = "Bracketed" if (lo > 0) != (hi > 0) else ("ClampLow" if lo < 0 else "ClampHigh")
        solve.update(oc=oc, lo=lo, hi=hi, n=len(vals))
        return r

    def size_rec(self, method):
        solve.clear()
        real_size(self, method)
        events.append({"e": "Sized", "n": self.nbh, "H_mm": mm(self.bhe.b.H), "oc": solve.get("oc", "none"), "lo_uK": uK(solve.get("lo", 0.0)), "hi_uK": uK(solve.get("hi", 0.0)),
                       "nev": solve.get("n", 0)})
        steps["log"].append({"e": "size", "f": fid_of(self.gFunction.bore_locations), "oc": solve.get("oc", "none"), "h": mm(self.bhe.b.H), "lo": uK(solve.get("lo", 0.0)),
                             "hi": uK(solve.get("hi", 0.0))})

    real_cg = ghx.BaseGHE.compute_g_functions

    def cg_rec(self):
        real_cg(self)
        steps["log"].append({"e": "cg", "f": fid_of(self.gFunction.bore_locations)})

    def make_ce(cls):
        real = cls.calculate_excess
        real_ce[cls] = real

        real_init = cls.initialize_ghe
        real_ce[(cls, "init")] = real_init

        def init(self, coordinates, h, field_specifier="N/A"):
            real_init(self, coordinates, h, field_specifier=field_specifier)
            if state["in_eval"] == 0:
                steps["log"].append({"e": "init", "f": fid_of(coordinates), "h": mm(h)})

        cls.initialize_ghe = init

        def ce(self, coordinates, h, field_specifier="N/A"):
            state["in_eval"] += 1
            try:
                v = real(self, coordinates, h, field_specifier=field_specifier)
            finally:
                state["in_eval"] -= 1
            steps["log"].append({"e": "eval", "f": fid_of(coordinates), "h": mm(h), "v": uK(v)})
            row = self.searchTracker[-1]
            g = self.ghe
            events.append({"e": "Eval", "n": len(coordinates), "H_mm": mm(h), "ex_uK": uK(v), "max_uK": uK(row[2]), "min_uK": uK(row[3]),
                           "vsys_dmLps": clip(g.V_flow_system * 1e4), "m_mgps": clip(g.bhe.m_flow_borehole * 1e6), "rho_gL": clip(g.bhe.fluid.rho)})
            return v

        cls.calculate_excess = ce

    def alarm(signum, frame):
        raise TimeoutError()

    desc = dict(sc)
    ghx.solve_root = solve_rec
    ghx.GHE.size = size_rec
    ghx.BaseGHE.compute_g_functions = cg_rec
    for cls in (sr.Bisection1D, sr.RowWiseModifiedBisectionSearch):
        make_ce(cls)
    real_gen = (sr.field_optimization_fr, sr.field_optimization_wp_space_fr)

    def gen_rec(which):
        def gen(*a, **kw):
            out = real_gen[which](*a, **kw)
            spacing = a[0] if which == 0 else a[1]
            gc = rw.get("gc")
            if gc is not None:
                t = (spacing - gc.min_spacing) / (gc.max_spacing - gc.min_spacing) * 1024.0
                if abs(t - round(t)) < 1e-9:
                    idmap[id(out[0])] = ("s", int(round(t)), 0)
                    if int(round(t)) == 1024:
                        rw["lower_n"] = len(out[0])
                    rw.setdefault("counts", set()).add(len(out[0]))
                else:
                    rw["tail"] = True
            return out
        return gen

    sr.field_optimization_fr = gen_rec(0)
    sr.field_optimization_wp_space_fr = gen_rec(1)
    d = Path(tempfile.mkdtemp(prefix="corpus-", dir=BUILD))
    buf = io.StringIO()
    signal.signal(signal.SIGALRM, alarm)
    signal.alarm(WATCHDOG_S)
    try:
        with warnings.catch_warnings(), contextlib.redirect_stdout(buf), contextlib.redirect_stderr(io.StringIO()):
            warnings.simplefilter("ignore")
            m, info = build(sc)
            events.append({"e": "Configure", **info})
            des = m._design
            nested = getattr(des, "coordinates_domain_nested", None)
            if nested is None and hasattr(des, "coordinates_domain"):
                nested = [des.coordinates_domain]
            for j, lst in enumerate(nested or []):
                for i, c in enumerate(lst):
                    idmap[id(c)] = (j + 1, i + 1)
            steps["lists"] = [[len(c) for c in lst] for lst in (nested or [])]
            if sc["method"] == "ROWWISE":
                rw["gc"] = m._geometric_constraints
            try:
                m.find_design()
                outcome = {"e": "Outcome", "kind": "design", "type": "", "escape": "available configuration selected." in buf.getvalue()}
            except TimeoutError:
                outcome = {"e": "Outcome", "kind": "raise", "type": "NonTermination", "escape": False}
            except Exception as ex:  # noqa: BLE001
                outcome = {"e": "Outcome", "kind": "raise", "type": type(ex).__name__, "escape": False}
                desc["exception"] = f"{type(ex).__name__}: {ex}"[:200]
            events.append(outcome)
            steps["outcome"] = {"k": "sel" if outcome["kind"] == "design" else "raise", "type": outcome["type"],
                                "f": fid_of(m._search.ghe.gFunction.bore_locations) if outcome["kind"] == "design" else None}
            if outcome["kind"] == "design":
                g = m._search.ghe
                g2 = copy.deepcopy(g)
                # re-simulate with a brand-new short-time-step model, so that nothing the sizing iterations may have left in it is re-used
                from ghedesigner.radial_numerical_borehole import RadialNumericalBH  # noqa: PLC0415

                g2.radial_numerical = RadialNumericalBH(g2.bhe.to_single())
                mx, mn = g2.simulate(method=TimestepType.HYBRID)
                nan = any(x != x for x in g.hp_eft)
                desc["nan_in_eft"] = nan
                # "over the requested horizon": the same field simulated over ONE MORE month, looked at over the requested months only.
                # While every month carries its peaks (horizons below two years) the first N months of an N+1-month simulation ARE the
                # N-month simulation; beyond that the two differ legitimately and the extension is not made.
                ext_mx, ext_mn = mx, mn
                if sc["months"] < 24:
                    from ghedesigner.ground_loads import HybridLoad  # noqa: PLC0415

                    # both simulations use loads rebuilt the same way (fresh objects at the returned height), so that they differ by the
                    # horizon alone; their difference over the requested months - zero when the horizon is honoured - is added to the re-simulation
                    def fresh(extra):
                        g3 = copy.deepcopy(g)
                        g3.radial_numerical = RadialNumericalBH(g3.bhe.to_single())
                        g3.radial_numerical.calc_sts_g_functions(g3.bhe_eq)
                        sp3 = copy.copy(g3.sim_params)
                        sp3.end_month = sp3.end_month + extra
                        g3.sim_params = sp3
                        g3.hybrid_load = HybridLoad(g3.hourly_extraction_ground_loads, g3.bhe_eq, g3.radial_numerical, sp3)
                        g3.simulate(method=TimestepType.HYBRID)
                        return g3

                    ga, gb = fresh(0), fresh(1)
                    end = float(ga.times[-1]) + 1e-6
                    inside = [x for x, tt in zip(gb.hp_eft, gb.times) if tt <= end]
                    ext_mx, ext_mn = mx + (max(inside) - max(ga.hp_eft)), mn + (min(inside) - min(ga.hp_eft))
                    desc["horizon_extension"] = True
                events.append({"e": "Final", "n": len(g.gFunction.bore_locations), "H_mm": mm(g.bhe.b.H), "rep_max_uK": uK(max(g.hp_eft)), "rep_min_uK": uK(min(g.hp_eft)),
                               "resim_max_uK": uK(mx), "resim_min_uK": uK(mn), "mdot_mgps": clip(g.bhe.m_flow_borehole * 1e6), "ext_max_uK": uK(ext_mx), "ext_min_uK": uK(ext_mn)})
                if sc["months"] % 12 != 0:
                    raise _SkipReport()     # OutputManager cannot label a horizon that is not a whole number of years (IndexError): observation F18
                try:
                    m.prepare_results("p", "n", "a", "i")
                    m.write_output_files(d)
                except Exception as ex:  # noqa: BLE001 - the run found a design and then failed while reporting it
                    desc["report_exception"] = f"{type(ex).__name__}: {ex}"[:300]
                    raise _SkipReport() from None
                summ = json.loads((d / "SimulationSummary.json").read_text())
                rows = sum(1 for _ in open(d / "BoreFieldData.csv")) - 1
                gs = summ["ghe_system"]
                events.append({"e": "Report", "rows": rows, "nbh": gs["number_of_boreholes"], "drilling_cm": clip(gs["total_drilling"]["value"] * 100.0),
                               "sum_max_uK": uK(summ["simulation_results"]["max_hp_eft"]["value"]), "sum_min_uK": uK(summ["simulation_results"]["min_hp_eft"]["value"]),
                               "sum_H_mm": mm(gs["active_borehole_length"]["value"]), "logrows": len(summ["design_selection_search_log"]["data"]),
                               "mdot_mgps": clip(gs["fluid_mass_flow_rate_per_borehole"]["value"] * 1e6)})
    except _SkipReport:
        desc["report_skipped"] = True
    except TimeoutError:
        events.append({"e": "Outcome", "kind": "raise", "type": "NonTermination", "escape": False})
    except Exception as ex:  # noqa: BLE001
        desc["harness_exception"] = f"{type(ex).__name__}: {ex}"[:300]
    finally:
        signal.alarm(0)
        ghx.solve_root = real_solve
        ghx.GHE.size = real_size
        ghx.BaseGHE.compute_g_functions = real_cg
        sr.field_optimization_fr, sr.field_optimization_wp_space_fr = real_gen
        for key, real in real_ce.items():
            if isinstance(key, tuple):
                key[0].initialize_ghe = real
            else:
                key.calculate_excess = real
        shutil.rmtree(d, ignore_errors=True)
    events.append({"e": "End"})
    steps["rw_counts"] = sorted(rw.get("counts", []))
    steps["rw_tail"] = bool(rw.get("tail"))
    usable = steps["outcome"] is not None and all(e.get("f") is not None for e in steps["log"]) and (steps["outcome"]["k"] != "sel" or steps["outcome"]["f"] is not None)
    return {"desc": desc, "events": events, "steps": steps if usable else None}


def corpus(t: str, seed: int):
    import hashlib  # noqa: PLC0415

    # the recorded runs depend on the scenarios and the recorder defined in this file as well as on the repository
    own = hashlib.sha256(Path(__file__).read_bytes()).hexdigest()[:8]
    key = f"{repo_fingerprint()}-{own}-{t}-{seed}"
    cdir = BUILD / "corpus"
    cdir.mkdir(parents=True, exist_ok=True)
    f = cdir / f"{key}.json"
    if f.exists():
        try:
            return json.loads(f.read_text())
        except Exception:  # noqa: BLE001
            f.unlink()
    scs = scenarios(t, seed)
    runs = parallel_map(record_run, scs)
    f.write_text(json.dumps(runs))
    for old in sorted(cdir.glob("*.json"), key=lambda p: p.stat().st_mtime)[:-3]:
        old.unlink()
    return runs


def validate(runs):
    """TLC batch validation -> {index: set(failed clause names)}"""
    d = scratch("systrace")
    try:
        tf = d / "traces.json"
        tf.write_text(json.dumps([r["events"] for r in runs]))
        res = run_tlc("SystemTrace", "INIT Init\nNEXT Next\nCHECK_DEADLOCK FALSE\n", workers=1, want_prints=False, timeout=3000, env={"TRACE_FILE": str(tf)})
        require_tlc_ok(res, "SystemTrace")
        verdicts = {}
        for m in re.finditer(r'<<\s*"VERDICT",\s*(\d+),\s*\{([^}]*)\}\s*>>', res.stdout):
            verdicts[int(m.group(1))] = set(re.findall(r'"([^"]*)"', m.group(2)))
        if len(verdicts) != len(runs):
            raise MachineryError(f"SystemTrace: {len(verdicts)} verdicts for {len(runs)} traces\n{res.stdout[-1500:]}")
        return verdicts, res
    finally:
        shutil.rmtree(d, ignore_errors=True)
