"""C09 (temporal superposition) and C11 (combined g-function): Superposition.tla / GJoin.tla + replay + spec-bound references."""
from __future__ import annotations

import contextlib
import io
import math
import random
import warnings
from fractions import Fraction
from types import SimpleNamespace

from .core import Check, MachineryError, import_repo, parallel_map, require_tlc_ok, run_tlc, tier


# ------------------------------------------------------------------------------------------------
# the spec-bound reference (transliteration of Superposition.tla Dev / the documented formula)
# ------------------------------------------------------------------------------------------------
def eft_ref(q, t, gfun, ts, two_pi_k, H, N, tg, rb, mdot, cp):
    """q: total field load per step (W, rejection positive), t: end time of each step (h). Vectorised, independent of the code's loop."""
    import numpy as np  # noqa: PLC0415

    q = np.asarray(q, dtype=float)
    t = np.asarray(t, dtype=float)
    n = len(q)
    dq = np.diff(np.concatenate(([0.0], q)))
    t0 = np.concatenate(([0.0], t[:-1]))          # start time of step i (t_{i-1})
    out = np.empty(n)
    for k in range(n):
        dt = t[k] - t0[: k + 1]
        gv = gfun(np.log(dt * 3600.0 / ts))
        out[k] = tg + float(np.dot(dq[: k + 1], gv)) / (two_pi_k * H * N) + q[k] * rb / (H * N) - q[k] / (2.0 * mdot * cp * N)
    return out


def _replay_c09(item):
    import_repo()
    import numpy as np  # noqa: PLC0415

    from ghedesigner.constants import TWO_PI  # noqa: PLC0415
    from ghedesigner.ground_heat_exchangers import BaseGHE  # noqa: PLC0415

    q, t, dev, den, K = item["q"], item["t"], item["dev"], item["den"], item["K"]
    R = Fraction(*item["R"])
    Cf = Fraction(*item["Cf"])
    gtab = item["g"]
    nb = 2
    tg = 11.5

    def g(x):
        d = np.rint(np.exp(np.asarray(x, dtype=float))).astype(int)
        return np.array([gtab[k - 1] for k in d], dtype=float)

    k_soil = 1.0 / TWO_PI
    stub = SimpleNamespace(
        nbh=nb, radial_numerical=SimpleNamespace(t_s=3600.0),
        bhe=SimpleNamespace(soil=SimpleNamespace(k=k_soil, ugt=tg), b=SimpleNamespace(H=float(K)), m_flow_borehole=1.0, fluid=SimpleNamespace(cp=float(1 / (2 * Cf))),
                            calc_effective_borehole_resistance=lambda: float(R * K)))
    hp, _ = BaseGHE._simulate_detailed(stub, np.array([float(x) * nb for x in q]), np.array([float(x) for x in t]), g)
    want = [tg + dv / den for dv in dev]
    bad = []
    for n, (a, b) in enumerate(zip(hp, want)):
        if abs(a - b) > 1e-11 * max(1.0, abs(b)):
            bad.append(f"step {n + 1}: code {a!r} vs formula {b!r}")
            break
    # the reference transliteration is bound to TLC on the same case
    ref = eft_ref([float(x) * nb for x in q], t, g, 3600.0, TWO_PI * k_soil, float(K), nb, tg, float(R * K), 1.0, float(1 / (2 * Cf)))
    for a, b in zip(ref, want):
        if abs(a - b) > 1e-11 * max(1.0, abs(b)):
            raise MachineryError(f"eft_ref disagrees with TLC on {item}")
    return bad


def _small_steps_c09(seed):
    """Loads whose consecutive values are nearly but not exactly equal (a slow ramp, ppm-level monthly differences): every
    increment, however small, enters the superposition. Real _simulate_detailed against the TLC-bound transliteration."""
    import_repo()
    import numpy as np  # noqa: PLC0415

    from ghedesigner.constants import TWO_PI  # noqa: PLC0415
    from ghedesigner.ground_heat_exchangers import BaseGHE  # noqa: PLC0415

    rnd = random.Random(seed)
    n = rnd.choice([300, 600])
    base = rnd.choice([20000.0, -15000.0, 2.5])
    rel = rnd.choice([1e-9, 1e-7, 3e-6, 8e-6])
    q = [base * (1.0 + rel * i) for i in range(n)]
    if rnd.random() < 0.5:                     # a plateau of exactly equal values in the middle (these increments ARE zero)
        for i in range(n // 3, n // 2):
            q[i] = q[n // 3]
    t = [float(i + 1) for i in range(n)]
    axis = rnd.choice(["hourly", "mixed", "mixed"])
    if axis == "mixed":
        # steps from 3.6 ms (the hybrid method's placeholder pulse) to a month: a step's own length is what enters ln((t_n - t_(i-1))/t_s),
        # however short it is; the loads change at every step so that every short step carries an increment
        t, acc = [], 0.0
        for i in range(n):
            acc += rnd.choice([1e-6, 1e-4, 2e-4, 2.5e-4, 0.01, 0.5, 1.0, 7.0, 700.0])
            t.append(acc)
        q = [base * (1.0 + 0.3 * math.sin(1.7 * i)) for i in range(n)]

    def g(x):
        return 4.0 + 0.6 * np.asarray(x, dtype=float)

    nb, k_soil, tg, H, rb, cp = 2, 1.0 / TWO_PI, 11.5, 3.0, 0.15, 4000.0
    stub = SimpleNamespace(nbh=nb, radial_numerical=SimpleNamespace(t_s=3600.0),
                           bhe=SimpleNamespace(soil=SimpleNamespace(k=k_soil, ugt=tg), b=SimpleNamespace(H=H), m_flow_borehole=0.4, fluid=SimpleNamespace(cp=cp),
                                               calc_effective_borehole_resistance=lambda: rb))
    hp, _ = BaseGHE._simulate_detailed(stub, np.array(q), np.array(t), g)
    ref = eft_ref(q, t, g, 3600.0, TWO_PI * k_soil, H, nb, tg, rb, 0.4, cp)
    err = float(np.max(np.abs(np.array(hp) - np.array(ref))))
    scale = float(np.max(np.abs(np.array(ref) - tg))) or 1.0
    if err > 1e-9 * scale:
        return [f"loads {base} W ({axis} axis) rising by {rel:g} per step over {n} steps: simulated EFT deviates from the superposition by {err:.3g} K (departures up to {scale:.3g} K)"]
    return []


def _mk_real_ghe(n1, n2, H, soil_k=2.0, pipe="single", months=12, amp=9000.0, h_bore=None, gf_rb=None, loads_array=False):
    import_repo()
    from ghedesigner.borehole import GHEBorehole  # noqa: PLC0415
    from ghedesigner.coordinates import rectangle  # noqa: PLC0415
    from ghedesigner.enums import BHPipeType  # noqa: PLC0415
    from ghedesigner.gfunction import calc_g_func_for_multiple_lengths  # noqa: PLC0415
    from ghedesigner.ground_heat_exchangers import GHE  # noqa: PLC0415
    from ghedesigner.media import GHEFluid, Grout, Pipe, Soil  # noqa: PLC0415
    from ghedesigner.simulation import SimulationParameters  # noqa: PLC0415
    from ghedesigner.utilities import eskilson_log_times  # noqa: PLC0415

    from .p_history import profile  # noqa: PLC0415

    fluid = GHEFluid("water", 0.0, 20.0)
    if pipe == "single":
        pp = Pipe(Pipe.place_pipes(0.01856, 0.02108, 1), 0.01702, 0.02108, 0.01856, 1e-6, 0.4, 1542000.0)
        bt = BHPipeType.SINGLEUTUBE
    else:
        pp = Pipe(Pipe.place_pipes(0.024, 0.02108, 2), 0.01702, 0.02108, 0.024, 1e-6, 0.4, 1542000.0)
        bt = BHPipeType.DOUBLEUTUBEPARALLEL
    grout, soil = Grout(1.0, 3901000.0), Soil(soil_k, 2343493.0, 18.3)
    bore = GHEBorehole(H, 2.0, 0.075, 0.0, 0.0)
    coords = rectangle(n1, n2, 5.0, 5.0)
    nb = n1 * n2
    sp = SimulationParameters(1, months, 35.0, 5.0, 135.0, 60.0)
    m_flow = 0.3 / 1000.0 * fluid.rho
    gfn = calc_g_func_for_multiple_lengths(5.0, [bore.H], bore.r_b if gf_rb is None else gf_rb, bore.D, m_flow, bt, eskilson_log_times(), coords, fluid, pp, grout, soil)
    if h_bore is not None:
        bore.H = h_bore       # the stored g-function stays the one computed for H; the exchanger is built at another height
    loads = profile(amp * nb)
    if loads_array:
        import numpy as np  # noqa: PLC0415

        loads = np.array(loads, dtype=np.float64)      # the loads may be handed over as a float array as well as a list
    return GHE(0.3 * nb, 5.0, bt, fluid, bore, pp, grout, soil, gfn, sp, loads)


def _real_c09(case):
    """Real GHE objects: every simulated step against the reference; zero load / scaling / sign / ground-temperature shift as paired runs."""
    import_repo()
    import numpy as np  # noqa: PLC0415

    from ghedesigner.constants import TWO_PI  # noqa: PLC0415
    from ghedesigner.enums import TimestepType  # noqa: PLC0415

    n1, n2, H, soil_k, pipe, months, hourly = case
    bad = []
    stats = {"steps": 0, "join_branch": None}
    with warnings.catch_warnings(), contextlib.redirect_stdout(io.StringIO()):
        warnings.simplefilter("ignore")
        try:
            g = _mk_real_ghe(n1, n2, H, soil_k, pipe, months)
            nb = n1 * n2

            def reference(ghe, q, tt):
                gf, _ = ghe.grab_g_function(ghe.B_spacing / ghe.bhe.b.H)
                return eft_ref(q, tt, gf, ghe.radial_numerical.t_s, TWO_PI * ghe.bhe.soil.k, ghe.bhe.b.H, nb, ghe.bhe.soil.ugt,
                               ghe.bhe.calc_effective_borehole_resistance(), ghe.bhe.m_flow_borehole, ghe.bhe.fluid.cp)

            g.simulate(TimestepType.HYBRID)
            hp = np.array(g.hp_eft)
            q = np.asarray(g.hybrid_load.load[2:], dtype=float) * 1000.0
            tt = np.asarray(g.hybrid_load.hour[2:], dtype=float)
            if np.any(np.diff(np.concatenate(([0.0], tt))) <= 0):
                return {"skip": "hybrid axis not increasing (overlapping peak windows)", "stats": stats}
            ref = reference(g, q, tt)
            stats["steps"] += len(hp)
            err = np.max(np.abs(hp - ref) / np.maximum(1.0, np.abs(ref)))
            if not err <= 1e-9:
                bad.append(f"HYBRID: simulated EFT deviates from the documented superposition by {err:.3g} (relative), field {n1}x{n2}, H={H}")
            base_dev = hp - g.bhe.soil.ugt
            load0 = g.hybrid_load.load.copy()
            for fac, name in ((2.0, "doubling"), (-1.0, "negating"), (0.0, "zeroing")):
                g.hybrid_load.load = load0 * fac
                g.simulate(TimestepType.HYBRID)
                dev = np.array(g.hp_eft) - g.bhe.soil.ugt
                if fac == 0.0:
                    if np.any(np.array(g.hp_eft) != g.bhe.soil.ugt):
                        bad.append(f"zero load does not return exactly the ground temperature (max deviation {np.max(np.abs(dev)):.3g})")
                else:
                    e2 = np.max(np.abs(dev - fac * base_dev)) / max(1e-12, np.max(np.abs(base_dev)))
                    if not e2 <= 1e-9:
                        bad.append(f"{name} all loads does not scale the departure linearly (relative error {e2:.3g})")
            g.hybrid_load.load = load0
            # rejection raises / extraction lowers: a constant positive load
            g.hybrid_load.load = np.concatenate((load0[:2], np.full(len(load0) - 2, 5.0)))
            g.simulate(TimestepType.HYBRID)
            if not all(x > g.bhe.soil.ugt for x in g.hp_eft):
                bad.append("constant heat rejection does not raise the entering fluid temperature above the ground temperature")
            g.hybrid_load.load = np.concatenate((load0[:2], np.full(len(load0) - 2, -5.0)))
            g.simulate(TimestepType.HYBRID)
            if not all(x < g.bhe.soil.ugt for x in g.hp_eft):
                bad.append("constant heat extraction does not lower the entering fluid temperature below the ground temperature")
            g.hybrid_load.load = load0
            # ground temperature shift
            g.bhe.soil.ugt += 3.25
            g.simulate(TimestepType.HYBRID)
            sh = np.array(g.hp_eft) - hp
            if not np.max(np.abs(sh - 3.25)) <= 1e-9:
                bad.append(f"shifting the ground temperature by 3.25 K shifts the results by {sh.min()}..{sh.max()}")
            g.bhe.soil.ugt -= 3.25
            # the height of the object is changed (the idiom of the searches) and it is simulated again: the result is that of an
            # object built at the new height with the same stored g-function (t_s, short-time response, R_b* all follow the height)
            h2 = H * 0.8 if H * 0.8 >= 60.0 else H * 1.25
            g.bhe.b.H = h2
            g.simulate(TimestepType.HYBRID)
            moved = np.array(g.hp_eft)
            fresh = _mk_real_ghe(n1, n2, H, soil_k, pipe, months, h_bore=h2)
            fresh.hybrid_load = g.hybrid_load      # same load sequence (peak durations are fixed when an object is constructed)
            fresh.simulate(TimestepType.HYBRID)
            e3 = np.max(np.abs(moved - np.array(fresh.hp_eft)) / np.maximum(1.0, np.abs(np.array(fresh.hp_eft))))
            stats["steps"] += len(moved)
            if not e3 <= 1e-9:
                bad.append(f"HYBRID after changing the height from {H} to {h2:.2f} m on the same object deviates from an object built at that height by {e3:.3g} (relative)")
            g.bhe.b.H = H
            g.simulate(TimestepType.HYBRID)
            if n1 * n2 <= 12:
                # the g-function the object holds is replaced while the height stays the same (compute_g_functions: a three-height table):
                # the next simulation superposes the NEW g-function
                g.compute_g_functions()
                g.simulate(TimestepType.HYBRID)
                ref2 = reference(g, q, tt)
                stats["steps"] += len(ref2)
                err2 = np.max(np.abs(np.array(g.hp_eft) - ref2) / np.maximum(1.0, np.abs(ref2)))
                if not err2 <= 1e-9:
                    bad.append(f"HYBRID after compute_g_functions() at an unchanged height: simulated EFT deviates from the superposition of the g-function the object now holds by {err2:.3g} (relative)")
            if n1 * n2 <= 4:
                # a stored g-function tabulated for ANOTHER borehole radius: the simulation superposes the stored long-time curve
                # corrected by -ln(rb*/rb) (Eskilson), joined with the short-time response by the library's (separately replayed) join
                from ghedesigner.ground_heat_exchangers import BaseGHE  # noqa: PLC0415

                rb_tab = 0.09
                g3 = _mk_real_ghe(n1, n2, H, soil_k, pipe, months, gf_rb=rb_tab)
                g3.simulate(TimestepType.HYBRID)
                stored = list(g3.gFunction.g_lts[H])
                corr = [v - math.log(g3.bhe.b.r_b / rb_tab) for v in stored]
                gref = BaseGHE.combine_sts_lts(list(g3.gFunction.log_time), corr, g3.radial_numerical.lntts.tolist(), g3.radial_numerical.g.tolist())
                q3 = np.asarray(g3.hybrid_load.load[2:], dtype=float) * 1000.0
                t3 = np.asarray(g3.hybrid_load.hour[2:], dtype=float)
                if not np.any(np.diff(np.concatenate(([0.0], t3))) <= 0):
                    ref3 = eft_ref(q3, t3, gref, g3.radial_numerical.t_s, TWO_PI * g3.bhe.soil.k, g3.bhe.b.H, nb, g3.bhe.soil.ugt,
                                   g3.bhe.calc_effective_borehole_resistance(), g3.bhe.m_flow_borehole, g3.bhe.fluid.cp)
                    e4 = np.max(np.abs(np.array(g3.hp_eft) - ref3) / np.maximum(1.0, np.abs(ref3)))
                    stats["steps"] += len(ref3)
                    if not e4 <= 1e-9:
                        bad.append(f"HYBRID with a g-function tabulated for r_b = {rb_tab} m on a {g3.bhe.b.r_b} m borehole deviates from the superposition of the radius-corrected curve by {e4:.3g} (relative)")
            if hourly and months == 12:
                # loads handed over as a float64 array; two HOURLY simulations in a row give the same temperatures and leave the loads alone
                ga = _mk_real_ghe(n1, n2, H, soil_k, pipe, months, loads_array=True)
                before = np.array(ga.hourly_extraction_ground_loads, dtype=float).copy()
                ga.simulate(TimestepType.HOURLY)
                first = np.array(ga.hp_eft)
                ga.simulate(TimestepType.HOURLY)
                second = np.array(ga.hp_eft)
                stats["steps"] += 2 * len(first)
                if len(first) != len(second) or np.max(np.abs(first - second)) > 1e-12:
                    bad.append(f"two HOURLY simulations in a row on an object whose loads are a float array differ by up to {np.max(np.abs(first - second)):.3g} K")
                if not np.array_equal(np.asarray(ga.hourly_extraction_ground_loads, dtype=float), before):
                    bad.append("an HOURLY simulation changed the loads (float array) of the object")
            if hourly:
                g.simulate(TimestepType.HOURLY)
                hp = np.array(g.hp_eft)
                nyears = max(1, math.ceil(months / 12))
                qh = -np.asarray(list(g.hourly_extraction_ground_loads) * nyears, dtype=float)      # the year of loads repeats over the horizon
                th = np.arange(1, len(qh) + 1, dtype=float)
                if len(hp) != len(qh):
                    bad.append(f"HOURLY over {months} months returns {len(hp)} temperatures, the horizon has {len(qh)} hours")
                    return {"bad": bad, "stats": stats}
                # reference on a sample of steps (each step is O(n)): first 200, every 97th, last 50
                gf, _ = g.grab_g_function(g.B_spacing / g.bhe.b.H)
                idx = sorted(set(list(range(0, 200)) + list(range(0, len(qh), 97)) + list(range(len(qh) - 50, len(qh)))))
                dq = np.diff(np.concatenate(([0.0], qh)))
                t0 = np.concatenate(([0.0], th[:-1]))
                worst = 0.0
                for k in idx:
                    dt = th[k] - t0[: k + 1]
                    gv = gf(np.log(dt * 3600.0 / g.radial_numerical.t_s))
                    r = (g.bhe.soil.ugt + float(np.dot(dq[: k + 1], gv)) / (TWO_PI * g.bhe.soil.k * g.bhe.b.H * nb)
                         + qh[k] * g.bhe.calc_effective_borehole_resistance() / (g.bhe.b.H * nb) - qh[k] / (2.0 * g.bhe.m_flow_borehole * g.bhe.fluid.cp * nb))
                    worst = max(worst, abs(hp[k] - r) / max(1.0, abs(r)))
                stats["steps"] += len(idx)
                if not worst <= 1e-9:
                    bad.append(f"HOURLY: simulated EFT deviates from the documented superposition by {worst:.3g} (relative)")
        except Exception as ex:  # noqa: BLE001
            bad.append(f"raised {type(ex).__name__}: {ex}")
    return {"bad": bad, "stats": stats}


def run_c09() -> int:
    chk = Check("C09")
    t = tier()
    chk.rule = ("TLC builds every load sequence (values -2..2) on every strictly increasing integer time axis <= 6 for five tables, checks zero-load / linearity / additivity / sign, and "
                "prints the exact value of every step; BaseGHE._simulate_detailed is replayed on every case; real GHE objects (fields 1..120 boreholes, both time-step methods) are judged "
                "against the transliterated formula bound to the same TLC output; distinct = (sequence, axis, table)")
    chk.trusted = ["harness/p_numeric.eft_ref (checked against TLC's exact rationals on every generated case)", "TLC 1.8.0"]
    maxlen = 3 if t == "quick" else 4
    consts = f"CONSTANTS\n MaxLen = {maxlen}\n LoadVals <- c_Loads\n MaxT = 6\n TableIds <- c_Tabs\n K = 3\n Rnum = 1\n Rden = 2\n Cnum = 1\n Cden = 5\n"
    mod = "---- MODULE MC_Super ----\nEXTENDS Superposition\nc_Loads == -2..2\nc_Tabs == 1..5\n====\n"
    cfg = "INIT Init\nNEXT Next\nCHECK_DEADLOCK FALSE\n" + consts + "".join(f"INVARIANT {i}\n" for i in ("ZeroLoadGivesGroundTemp", "Linear", "RejectionRaises", "Additive"))
    res = run_tlc("MC_Super", cfg, extra_modules={"MC_Super.tla": mod}, want_prints=False, timeout=3000)
    chk.add_tlc(res)
    if res.violated:
        chk.violation(f"Superposition.tla invariant {res.violated} violated", {"state": res.stdout.split('\nState ')[-1][:1000]})
    else:
        require_tlc_ok(res, "Superposition")
    cfg = "INIT Init\nNEXT Next\nCHECK_DEADLOCK FALSE\n" + consts + "INVARIANT Emit\n"
    res = run_tlc("MC_Super", cfg, extra_modules={"MC_Super.tla": mod}, workers=1, timeout=3000)
    require_tlc_ok(res, "Superposition gen")
    items = res.prints
    rnd = random.Random(chk.seed)
    cap = 20000 if t == "quick" else 400000
    if len(items) > cap:
        items = rnd.sample(items, cap)
    for it, bad in zip(items, parallel_map(_replay_c09, items, chunksize=256)):
        if bad:
            chk.violation(f"C09 _simulate_detailed on loads {it['q']} times {it['t']} table {it['tab']}: {bad[0]}", {"case": it, "bad": bad})
            if len(chk.violations) > 5:
                break
    chk.traces += len(items)
    chk.evaluations += len(items)
    chk.nontrivial = {(tuple(i["q"]), tuple(i["t"]), i["tab"]) for i in items}
    chk.sample({"loads": items[-1]["q"], "times": items[-1]["t"], "table": items[-1]["tab"], "dev_times_den": items[-1]["dev"], "den": items[-1]["den"]})
    nsmall = 0
    for sd, badl in zip(range(24), parallel_map(_small_steps_c09, [chk.seed * 41 + i for i in range(24)])):
        nsmall += 1
        for b in badl:
            chk.violation(f"C09 _simulate_detailed with nearly equal consecutive loads: {b}", {"seed": sd})
    chk.note("small_step_load_sequences", nsmall)
    chk.traces += nsmall
    cases = [(1, 1, 96.0, 2.0, "single", 12, True), (1, 2, 88.0, 2.2, "single", 24, True), (2, 2, 61.0, 2.6, "single", 25, False), (3, 4, 134.0, 1.4, "double", 12, False), (2, 5, 80.0, 3.2, "single", 12, False)]
    if t == "thorough":
        cases += [(n1, n2, H, k, p, m, hr) for (n1, n2) in ((1, 2), (4, 5), (6, 10), (10, 12), (20, 20)) for (H, k, p, m, hr) in ((70.0, 1.8, "single", 12, False), (125.0, 2.4, "double", 37, False))]
        cases += [(2, 3, 100.0, 2.0, "double", 12, True)]
    nsteps = 0
    skipped = 0
    for c, r in zip(cases, parallel_map(_real_c09, cases)):
        if "skip" in r:
            skipped += 1
            continue
        nsteps += r["stats"]["steps"]
        for b in r["bad"]:
            chk.violation(f"C09 real GHE {c}: {b}", {"case": c})
    chk.note("real_objects", len(cases) - skipped)
    chk.note("real_steps_judged", nsteps)
    chk.evaluations += nsteps
    if len(cases) - skipped < 2:
        raise MachineryError("too few real objects judged")
    chk.exhaustive = True
    return chk.finish()


# ------------------------------------------------------------------------------------------------
# C11
# ------------------------------------------------------------------------------------------------
def _replay_c11(item):
    import_repo()
    from ghedesigner.ground_heat_exchangers import BaseGHE  # noqa: PLC0415

    s, l = [float(x) for x in item["s"]], [float(x) for x in item["l"]]
    gs, gl = [100.0 + x for x in s], [200.0 + x for x in l]
    try:
        g = BaseGHE.combine_sts_lts(l, gl, s, gs)
        got = {"ok": True, "x": [float(v) for v in g.x], "y": [float(v) for v in g.y]}
    except IndexError:
        got = {"ok": False, "x": [], "y": []}
    except Exception as ex:  # noqa: BLE001
        got = {"ok": False, "x": [], "y": [], "err": f"{type(ex).__name__}: {ex}"}
    want = {"ok": item["ok"], "x": [float(v) for v in item["x"]], "y": [float(v) for v in item["y"]]}
    bad = []
    if (got["ok"], got["x"], got["y"]) != (want["ok"], want["x"], want["y"]):
        # judge the property directly on the code's own output
        if got["ok"]:
            x = got["x"]
            if l[0] in s:
                return {"bad": [], "drift": True, "f17": True}
            if any(b <= a for a, b in zip(x, x[1:])):
                bad.append("joined axis not strictly increasing")
            if x[-len(l):] != l or got["y"][-len(l):] != gl:
                bad.append("long-time points not reproduced at the end of the joined curve")
            head = x[: len(x) - len(l)]
            if any(v >= l[0] for v in head) or head != s[: len(head)] or got["y"][: len(head)] != gs[: len(head)]:
                bad.append("short-time part is not the short-time points strictly before the first long-time point")
            if len(head) != len([v for v in s if v < l[0]]):
                bad.append("short-time points before the first long-time point were dropped")
        elif s[-1] != l[0]:
            bad.append(f"join failed ({got.get('err', 'IndexError')}) although the short axis does not end on the first long-time point")
        return {"bad": bad, "drift": not bad}
    f17 = got["ok"] and l[0] in s and any(b <= a for a, b in zip(got["x"], got["x"][1:]))
    return {"bad": [], "drift": False, "f17": f17}


def _gfunction_cases(seed):
    """Real GFunction: stored-height identity for 1..5 curves, radius correction, cache history independence."""
    import_repo()
    import numpy as np  # noqa: PLC0415

    from ghedesigner.gfunction import GFunction  # noqa: PLC0415

    rnd = random.Random(seed)
    bad = []
    n = 0
    logt = [-8.5, -6.0, -3.0, 0.0, 2.0, 3.0]
    with warnings.catch_warnings():
        warnings.simplefilter("ignore")
        for ncurves in (1, 2, 3, 4, 5):
            hs = sorted(rnd.sample([60.0, 75.5, 90.0, 110.25, 135.0, 150.0], ncurves))
            curves = {h: [rnd.uniform(1, 3) + 0.9 * (lt + 9) + 0.01 * h for lt in logt] for h in hs}
            order = list(hs)
            rnd.shuffle(order)          # the family may have been stored in any order (deepest first, shuffled, ...)

            # the family may be tabulated at a constant r_b / H: a different stored radius per height (linear in the height, so every
            # interpolation kind reproduces it exactly)
            per_height_rb = ncurves % 2 == 0 or rnd.random() < 0.5
            rbs = {h: (0.0006 * h if per_height_rb else 0.075) for h in hs}

            def fresh():
                return GFunction(b=5.0, d=2.0, r_b_values={h: rbs[h] for h in order}, g_lts={h: list(curves[h]) for h in order}, log_time=list(logt), bore_locations=[(0, 0), (5, 0)])

            for h in hs:
                gf = fresh()
                try:
                    got, rb, _, _ = gf.g_function_interpolation(5.0 / h)
                except Exception as ex:  # noqa: BLE001
                    bad.append(f"{ncurves} curves, stored height {h}: raised {type(ex).__name__}: {ex}")
                    continue
                n += 1
                if np.max(np.abs(np.array(got) - np.array(curves[h]))) > 1e-10:
                    bad.append(f"{ncurves} stored curves: interpolating at the stored height {h} does not return the stored curve")
                if abs(float(rb) - rbs[h]) > 1e-9:
                    bad.append(f"{ncurves} stored curves: interpolating at the stored height {h} returns the radius {float(rb)!r}, stored with that curve: {rbs[h]!r}")
            if ncurves >= 2 and per_height_rb:
                hq = rnd.uniform(hs[0], hs[-1])
                rbq = float(fresh().g_function_interpolation(5.0 / hq)[1])
                n += 1
                if abs(rbq - 0.0006 * hq) > 1e-9:
                    bad.append(f"{ncurves} stored curves with radii 0.0006 H: the radius returned for H = {hq:.3f} is {rbq!r}, not {0.0006 * hq!r}")
            # cache: in-range queries do not depend on earlier in-range queries
            if ncurves >= 2:
                qs = [rnd.uniform(hs[0], hs[-1]) for _ in range(3)]
                for seq in ([qs[0], qs[1], qs[2]], [qs[1], qs[2]], [qs[2]], [hs[0], qs[2]], [hs[-1], qs[0], qs[2]]):
                    gf = fresh()
                    for hq in seq:
                        last = gf.g_function_interpolation(5.0 / hq)[0]
                    ref = fresh().g_function_interpolation(5.0 / seq[-1])[0]
                    n += 1
                    if list(last) != list(ref):
                        bad.append(f"{ncurves} curves: query at {seq[-1]} after {seq[:-1]} differs from the same query on a fresh object")
        # borehole radius correction: identity and additivity
        g0 = [rnd.uniform(2, 40) for _ in range(27)]
        from ghedesigner.gfunction import GFunction as GF  # noqa: PLC0415, N814

        same = GF.borehole_radius_correction(g0, 0.075, 0.075)
        if list(same) != list(g0):
            bad.append("borehole_radius_correction with equal radii is not the identity")
        a = GF.borehole_radius_correction(GF.borehole_radius_correction(g0, 0.05, 0.08), 0.08, 0.11)
        b = GF.borehole_radius_correction(g0, 0.05, 0.11)
        n += 2
        if max(abs(x - y) for x, y in zip(a, b)) > 1e-12:
            bad.append("borehole_radius_correction is not additive in ln(radius ratio)")
        for x, y in zip(GF.borehole_radius_correction(g0, 0.05, 0.08), g0):
            if abs((y - x) - math.log(0.08 / 0.05)) > 1e-12:
                bad.append("borehole_radius_correction does not subtract ln(rb*/rb)")
                break
    return n, bad


def _real_c11(case):
    import_repo()
    import numpy as np  # noqa: PLC0415

    n1, n2, H, soil_k, pipe = case
    bad = []
    info = {}
    with warnings.catch_warnings(), contextlib.redirect_stdout(io.StringIO()):
        warnings.simplefilter("ignore")
        try:
            g = _mk_real_ghe(n1, n2, H, soil_k, pipe, 12)
            for fam in ("single", "triple", "triple-other-radius"):
                if fam == "triple":
                    g.compute_g_functions()
                if fam == "triple-other-radius":
                    # the stored long-time family was computed for another borehole radius than the exchanger's: the radius correction is not zero
                    other = 0.06 if n1 % 2 else 0.1
                    g.gFunction.r_b_values = {hh: other for hh in g.gFunction.r_b_values}
                    g.gFunction.interpolation_table = {}
                gf, _ = g.grab_g_function(g.B_spacing / g.bhe.b.H)
                x, y = np.array(gf.x), np.array(gf.y)
                lt = np.array(g.gFunction.log_time)
                lts, rbv, _, _ = g.gFunction.g_function_interpolation(g.B_spacing / g.bhe.b.H)
                corr = np.array(lts) - math.log(g.bhe.b.r_b / float(rbv))
                sts_x, sts_y = np.array(g.radial_numerical.lntts), np.array(g.radial_numerical.g)
                branch = "concat" if sts_x.max() < lt.min() else "overlap"
                info[fam] = branch
                if np.any(np.diff(x) <= 0):
                    bad.append(f"{fam}: combined ln(t/ts) axis is not strictly increasing")
                if not np.array_equal(x[-len(lt):], lt) or np.max(np.abs(y[-len(lt):] - corr)) > 1e-12:
                    bad.append(f"{fam}: radius-corrected long-time values are not reproduced on the long-time points")
                head = x[: len(x) - len(lt)]
                k = len(head)
                if np.any(head >= lt[0]) or not np.array_equal(head, sts_x[:k]) or not np.array_equal(y[:k], sts_y[:k]):
                    bad.append(f"{fam}: the part before the first long-time point is not the short-time response")
                if k != int(np.sum(sts_x < lt[0])):
                    bad.append(f"{fam}: short-time points below the first long-time point were dropped ({k} kept of {int(np.sum(sts_x < lt[0]))})")
                if fam == "triple-other-radius" and abs(math.log(g.bhe.b.r_b / float(rbv))) < 0.1:
                    bad.append("harness: radius ratio too close to one")
                if fam == "triple":
                    # interpolating the family at a stored height returns the stored curve
                    for hh in g.gFunction.g_lts:
                        got = g.gFunction.g_function_interpolation(g.B_spacing / hh)[0]
                        if np.max(np.abs(np.array(got) - np.array(g.gFunction.g_lts[hh]))) > 1e-9:
                            bad.append(f"triple: interpolation at stored height {hh} does not return the stored curve")
        except Exception as ex:  # noqa: BLE001
            bad.append(f"raised {type(ex).__name__}: {ex}")
    return {"bad": bad, "info": info}


# ------------------------------------------------------------------------------------------------
# C11: analytical anchor of the long-time curves (a measurement, no model: there is no discrete structure)
# ------------------------------------------------------------------------------------------------
def _fls_reference(coords, h, d, rb, alpha, times):
    """Uniform-heat-rate g-function of equal vertical boreholes as the superposition of the finite-line-source solution with its
    mirror image (Claesson & Javed form), integrated with scipy.quad: independent of pygfunction."""
    import numpy as np  # noqa: PLC0415
    from scipy.integrate import quad  # noqa: PLC0415
    from scipy.special import erf  # noqa: PLC0415

    def ierf(x):
        return x * erf(x) - (1.0 - np.exp(-x * x)) / math.sqrt(math.pi)

    def fls(dist, t):
        def f(s_):
            y = 2 * ierf(h * s_) + 2 * ierf((h + 2 * d) * s_) - ierf((2 * h + 2 * d) * s_) - ierf(2 * d * s_)
            return np.exp(-dist * dist * s_ * s_) * y / (h * s_ * s_)
        v, _ = quad(f, 1.0 / math.sqrt(4 * alpha * t), np.inf, epsabs=1e-12, epsrel=1e-10, limit=400)
        return 0.5 * v

    c = np.array(coords, dtype=float)
    n = len(c)
    dist = np.sqrt(((c[:, None, :] - c[None, :, :]) ** 2).sum(-1))
    dist[np.diag_indices(n)] = rb
    vals, cnt = np.unique(np.round(dist, 9), return_counts=True)
    return np.array([sum(k * fls(x, t) for x, k in zip(vals, cnt)) / n for t in times])


def _fls_case(case):
    import_repo()
    import numpy as np  # noqa: PLC0415

    from ghedesigner.borehole import GHEBorehole  # noqa: PLC0415
    from ghedesigner.enums import BHPipeType  # noqa: PLC0415
    from ghedesigner.gfunction import calculate_g_function  # noqa: PLC0415
    from ghedesigner.media import GHEFluid, Grout, Pipe, Soil  # noqa: PLC0415
    from ghedesigner.utilities import eskilson_log_times  # noqa: PLC0415

    name, coords, h, d, rb = case
    soil, grout, fluid = Soil(k=2.0, rho_cp=2343493.0, ugt=18.3), Grout(k=1.0, rho_cp=3901000.0), GHEFluid("Water", 0.0)
    pipe = Pipe(Pipe.place_pipes(0.0323, 0.0133, 1), 0.0108, 0.0133, 0.0323, 1.0e-6, 0.4, 1542000.0)
    alpha = soil.k / soil.rhoCp
    times = np.exp(np.array(eskilson_log_times())) * h * h / (9.0 * alpha)
    out = {"name": name, "n": len(coords)}
    with warnings.catch_warnings(), contextlib.redirect_stdout(io.StringIO()):
        warnings.simplefilter("ignore")
        try:
            ref = _fls_reference(coords, h, d, rb, alpha, times)
            bore = GHEBorehole(h, d, rb, 0.0, 0.0)
            g = np.array(calculate_g_function(0.5, BHPipeType.SINGLEUTUBE, times, coords, bore, fluid, pipe, grout, soil, boundary="UHTR").gFunc)
            out["uhtr_err"] = float(np.max(np.abs(g - ref)))
            if out["uhtr_err"] > (1e-6 if len(coords) == 1 else 1e-4):
                # is it the grouping tolerance of the default 'equivalent' solver (listed finding F27)? the exact-pairing solver decides
                g2 = np.array(calculate_g_function(0.5, BHPipeType.SINGLEUTUBE, times, coords, bore, fluid, pipe, grout, soil, boundary="UHTR", solver="similarities").gFunc)
                out["uhtr_err_similarities"] = float(np.max(np.abs(g2 - ref)))
                if out["uhtr_err_similarities"] > 1e-4:
                    # on large regular grids 'similarities' groups nearly equal distances too; 'detailed' pairs every two boreholes (one segment is
                    # exact under the uniform-heat-rate condition)
                    g3 = np.array(calculate_g_function(0.5, BHPipeType.SINGLEUTUBE, times, coords, bore, fluid, pipe, grout, soil, boundary="UHTR", solver="detailed",
                                                       n_segments=1, segments="equal").gFunc)
                    out["uhtr_err_detailed"] = float(np.max(np.abs(g3 - ref)))
            if len(coords) == 1:
                gm = np.array(calculate_g_function(0.5, BHPipeType.SINGLEUTUBE, times, coords, bore, fluid, pipe, grout, soil).gFunc)
                out["mift_rel"] = float(np.max(np.abs(gm - ref) / np.abs(ref)))
        except Exception as ex:  # noqa: BLE001
            out["error"] = f"{type(ex).__name__}: {ex}"
    return out


def fls_anchor(chk: Check):
    def rect(nx, ny, b):
        return [(i * b, j * b) for i in range(nx) for j in range(ny)]

    rnd = random.Random(3)
    irregular = [(round(rnd.uniform(0, 60), 2), round(rnd.uniform(0, 60), 2)) for _ in range(25)]
    cases = [("single borehole", [(0.0, 0.0)], 100.0, 2.0, 0.075), ("single borehole, shallow", [(0.0, 0.0)], 45.0, 1.0, 0.06), ("2x3 grid", rect(2, 3, 5.0), 100.0, 2.0, 0.075),
             ("L shape", [(0, 0), (5, 0), (10, 0), (0, 5), (0, 10)], 150.0, 4.0, 0.08), ("U shape", [(0, 0), (0, 5), (0, 10), (5, 0), (10, 0), (10, 5), (10, 10)], 80.0, 2.0, 0.07),
             ("irregular 25", irregular, 100.0, 2.0, 0.075)]
    if tier() == "thorough":
        cases += [("5x5 grid", rect(5, 5, 5.0), 100.0, 2.0, 0.075), ("3x3 grid, shallow", rect(3, 3, 6.0), 40.0, 0.5, 0.06), ("10x15 grid", rect(10, 15, 5.0), 100.0, 2.0, 0.075),
                  ("4x4 grid deep", rect(4, 4, 7.5), 300.0, 5.0, 0.09)]
    n = 0
    for c, r in zip(cases, parallel_map(_fls_case, cases)):
        if "error" in r:
            chk.violation(f"C11 analytical anchor, {c[0]}: raised {r['error']}", {"case": c[0]})
            continue
        n += 1
        tol = 1e-6 if r["n"] == 1 else 1e-4
        if r["uhtr_err"] > tol:
            sim = r.get("uhtr_err_detailed", r.get("uhtr_err_similarities"))
            if sim is not None and sim <= tol and r["uhtr_err"] <= 1e-2 and r["n"] >= 20:
                chk.violation(f"C11 analytical anchor, {c[0]}: F27 (default solver's grouping tolerance), deviation {r['uhtr_err']:.3g}", {"case": c[0], "result": r}, known_key="F27")
            else:
                chk.violation(f"C11 analytical anchor, {c[0]} ({r['n']} boreholes): the uniform-heat-rate curve deviates from the finite-line-source superposition by {r['uhtr_err']:.3g} "
                              f"(tolerance {tol:g}; exact-pairing solver: {sim})", {"case": c[0], "result": r})
        if "mift_rel" in r and r["mift_rel"] > 0.2:
            chk.violation(f"C11 analytical anchor, {c[0]}: the default mixed-inlet-temperature curve deviates from the finite-line-source curve by {100 * r['mift_rel']:.1f} % (> 20 %)", {"case": c[0]})
    chk.note("analytical_anchor_cases", n)
    chk.traces += n


def run_c11() -> int:
    chk = Check("C11")
    t = tier()
    chk.rule = ("TLC builds every pair of strictly increasing integer axes (short 1..4 points, long 2..3 points, values 0..7; thorough: 5/4/9) and joins them as combine_sts_lts does; "
                "the real static method is replayed on every pair; the interpolation decision table, the stored-height identity, the radius correction and the cache are exercised on "
                "real GFunction objects; real GHE objects are judged for both join branches; distinct = axis pairs")
    chk.trusted = ["TLC 1.8.0", "scipy.integrate.quad for the analytical finite-line-source reference (a measurement on sampled fields, not a model)"]
    ms, ml, am = (4, 3, 7) if t == "quick" else (5, 4, 9)
    consts = f"CONSTANTS\n MaxS = {ms}\n MaxL = {ml}\n AxisMax = {am}\n"
    cfg = "INIT Init\nNEXT Next\nCHECK_DEADLOCK FALSE\n" + consts + "".join(f"INVARIANT {i}\n" for i in ("AxisStrictlyIncreasingK", "LtsReproduced", "StsBeforeOnlyK", "AllStsBeforeKept", "FailsOnlyOnTouch"))
    res = run_tlc("GJoin", cfg, want_prints=False, coverage=True, timeout=3000)
    chk.add_tlc(res)
    if res.violated:
        chk.violation(f"GJoin.tla invariant {res.violated} violated", {"state": res.stdout.split('\nState ')[-1][:1000]})
    else:
        require_tlc_ok(res, "GJoin")
    cfg = "INIT Init\nNEXT Next\nCHECK_DEADLOCK FALSE\n" + consts + "INVARIANT Emit\n"
    res = run_tlc("GJoin", cfg, workers=1, timeout=3000)
    require_tlc_ok(res, "GJoin gen")
    items = res.prints
    if not any(not i["ok"] for i in items) or not any(i["ok"] and len(i["x"]) == len(i["l"]) for i in items):
        raise MachineryError("vacuity: the touching case or the all-dropped case never generated")
    rnd = random.Random(chk.seed)
    cap = 30000 if t == "quick" else 400000
    if len(items) > cap:
        items = rnd.sample(items, cap)
    drift = 0
    for it, r in zip(items, parallel_map(_replay_c11, items, chunksize=256)):
        if r["bad"]:
            chk.violation(f"C11 combine_sts_lts(short {it['s']}, long {it['l']}): {r['bad'][0]}", {"case": it, "bad": r["bad"]})
            if len(chk.violations) > 5:
                break
        drift += 1 if r["drift"] else 0
        if r.get("f17"):
            chk.violation("F17", None, known_key="F17")
    chk.traces += len(items)
    chk.evaluations += len(items)
    chk.nontrivial = {(tuple(i["s"]), tuple(i["l"])) for i in items}
    chk.note("conformance_drift", drift)
    chk.sample({"short_axis": items[-1]["s"], "long_axis": items[-1]["l"], "joined_axis": items[-1]["x"]})
    ginterp(chk)
    ngf = 0
    for n, bad in parallel_map(_gfunction_cases, [chk.seed * 31 + i for i in range(8 if t == "quick" else 64)]):
        ngf += n
        for b in bad[:2]:
            chk.violation(f"C11 GFunction: {b}", {})
    chk.note("gfunction_object_cases", ngf)
    cases = [(1, 1, 61.0, 2.0, "single"), (2, 2, 125.0, 2.0, "single"), (3, 3, 90.0, 3.4, "double"), (1, 2, 134.0, 1.2, "single")]
    if t == "thorough":
        cases += [(n1, n2, H, k, "single") for (n1, n2) in ((1, 3), (4, 4), (7, 9)) for H in (60.0, 78.0, 101.0, 135.0) for k in (1.0, 2.2, 3.5)]
    branches = set()
    for c, r in zip(cases, parallel_map(_real_c11, cases)):
        branches |= set(r["info"].values())
        for b in r["bad"]:
            chk.violation(f"C11 real GHE {c}: {b}", {"case": c})
    chk.note("real_objects", len(cases))
    chk.note("join_branches_seen", sorted(branches))
    fls_anchor(chk)
    if branches != {"concat", "overlap"}:
        raise MachineryError(f"vacuity: join branches seen on real objects: {branches}")
    chk.evaluations += ngf + len(cases)
    chk.exhaustive = True
    return chk.finish()


# ------------------------------------------------------------------------------------------------
# GInterp.tla : the decision table and the cache of g_function_interpolation
# ------------------------------------------------------------------------------------------------
def _ginterp_case(item):
    import_repo()
    import numpy as np  # noqa: PLC0415

    from ghedesigner.gfunction import GFunction  # noqa: PLC0415

    n, qs, outs = item["n"], item["qs"], item["outs"]
    logt = [-8.5, -5.0, -1.0, 2.0]

    def family(hs_, g_):
        return {h: [1.0 + 0.37 * g_ + 0.7 * (lt + 9) + 0.013 * h + 0.00004 * h * h for lt in logt] for h in hs_}

    def classes(hs_):
        hq_ = {"min": hs_[0], "max": hs_[-1], "mid_stored": hs_[len(hs_) // 2], "inside": (hs_[0] + hs_[min(1, len(hs_) - 1)]) / 2 + 1.3, "below_snap": hs_[0] - 5e-7,
               "above_snap": hs_[-1] + 5e-7, "below_tol": hs_[0] - 5e-4, "below_far": hs_[0] - 7.0, "above_far": hs_[-1] + 9.0}
        near_ = {"min": hs_[0], "max": hs_[-1], "mid_stored": hs_[len(hs_) // 2], "below_snap": hs_[0], "above_snap": hs_[-1]}
        return hq_, near_

    hs = [60.0, 75.0, 97.5, 120.0, 150.0][:n]
    curves = family(hs, 0)
    order = list(hs)
    random.Random(n * 7 + len(qs)).shuffle(order)      # stored in an arbitrary order
    gf = GFunction(b=5.0, d=2.0, r_b_values={h: 0.075 for h in order}, g_lts={h: list(curves[h]) for h in order}, log_time=list(logt), bore_locations=[(0, 0), (5, 0)])
    hq, nearest = classes(hs)
    # the exchanger that owns the g-function: BaseGHE.compute_g_functions runs on it for a "recompute" (pygfunction replaced by a table generator)
    import ghedesigner.ground_heat_exchangers as ghx  # noqa: PLC0415

    owner = SimpleNamespace(gFunction=gf, sim_params=SimpleNamespace(min_height=60.0, max_height=135.0), B_spacing=5.0, bhe_type=None,
                            bhe=SimpleNamespace(b=SimpleNamespace(r_b=0.075, D=2.0), m_flow_borehole=0.3, fluid=None, pipe=None, grout=None, soil=None))
    gen = 0
    bad = []
    for i, (q, want) in enumerate(zip(qs, outs)):
        if q == "recompute":
            gen += 1
            owner.sim_params.min_height, owner.sim_params.max_height = [(100.0, 200.0), (40.0, 90.0)][gen - 1]

            def fake(b, h_values, r_b, d, m_flow, bhe_type, log_time, coordinates, *a, _g=gen, **k):
                fam = family(list(h_values), _g)
                return GFunction(b=b, d=d, r_b_values={h: r_b for h in h_values}, g_lts={h: list(fam[h]) for h in h_values}, log_time=list(log_time), bore_locations=coordinates)

            real = ghx.calc_g_func_for_multiple_lengths
            ghx.calc_g_func_for_multiple_lengths = fake
            try:
                ghx.BaseGHE.compute_g_functions(owner)
            finally:
                ghx.calc_g_func_for_multiple_lengths = real
            hs = sorted(owner.gFunction.g_lts.keys())
            if len(hs) != 3:
                return {"bad": bad, "drift": f"compute_g_functions stored {len(hs)} heights, the model has three"}
            curves = family(hs, gen)
            order = list(hs)
            hq, nearest = classes(hs)
            continue
        with warnings.catch_warnings(record=True) as w:
            warnings.simplefilter("always")
            try:
                got_curve = owner.gFunction.g_function_interpolation(5.0 / hq[q])[0]
                warned = any("Extrapolation" in str(x.message) for x in w)
                arr = np.array(got_curve, dtype=float)
                if len(hs) == 1:
                    cls = "stored" if np.max(np.abs(arr - np.array(curves[hs[0]]))) < 1e-9 else "other"
                elif q in nearest:
                    cls = "stored" if np.max(np.abs(arr - np.array(curves[nearest[q]]))) < 1e-6 else "other"
                elif q == "inside":
                    cls = "interp" if np.all(np.isfinite(arr)) and not warned else "other"
                    # the VALUES of an in-range query do not depend on what was asked before (first lookup outside the range included)
                    fresh = GFunction(b=5.0, d=2.0, r_b_values={h: 0.075 for h in order}, g_lts={h: list(curves[h]) for h in order}, log_time=list(logt), bore_locations=[(0, 0), (5, 0)])
                    with warnings.catch_warnings():
                        warnings.simplefilter("ignore")
                        ref_curve = np.array(fresh.g_function_interpolation(5.0 / hq[q])[0], dtype=float)
                    if arr.shape != ref_curve.shape or np.max(np.abs(arr - ref_curve)) > 1e-12:
                        bad.append(f"{len(hs)} stored curves, queries {qs}: the in-range query {i + 1} returns other values than on a fresh object (max difference {float(np.max(np.abs(arr - ref_curve))):.3g})")
                elif q == "below_tol":
                    cls = "extrap" if np.all(np.isfinite(arr)) else "other"       # counted as in range by the code: no warning, but extrapolated values
                else:
                    cls = "extrap" if np.all(np.isfinite(arr)) and warned else "other"
            except ValueError:
                cls = "ValueError"
            except Exception as ex:  # noqa: BLE001
                cls = type(ex).__name__
        if cls != want:
            # the property's own clauses, judged directly
            if q in nearest and cls != "stored":
                bad.append(f"{len(hs)} stored curves, queries {qs}: query {i + 1} at the stored height ({q}) does not return the stored curve ({cls})")
            elif q == "inside" and cls != "interp":
                bad.append(f"{len(hs)} stored curves, queries {qs}: in-range query {i + 1} depends on the earlier queries ({cls})")
            else:
                return {"bad": bad, "drift": f"{n} curves, queries {qs}: query {i + 1} ({q}) model {want} vs code {cls}"}
    return {"bad": bad, "drift": None}


def ginterp(chk: Check):
    t = tier()
    mq = 2 if t == "quick" else 3
    invs = ("INVARIANT StoredHeightReturnsStoredCurve\nINVARIANT InRangeIndependentOfHistory\nINVARIANT OutsideIndependentOfHistory\n"
            "INVARIANT TableOfCurrentFamily\nINVARIANT Emit\n")
    items = []
    # (a) query sequences on one family; (b) histories in which BaseGHE.compute_g_functions replaces the family between queries
    for label, ns_, q_, rec in (("queries", "1..5", mq, "FALSE"), ("recompute", "{2, 3}", mq + 1, "TRUE")):
        consts = f"CONSTANTS\n Ns <- c_Ns\n MaxQ = {q_}\n Fixed <- c_Fixed\n WithRecompute = {rec}\n"
        mod = f"---- MODULE MC_GInterp ----\nEXTENDS GInterp\nc_Ns == {ns_}\nc_Fixed == {{\"F28\"}}\n====\n"
        cfg = "INIT Init\nNEXT Next\nCHECK_DEADLOCK FALSE\n" + consts + invs
        res = run_tlc("MC_GInterp", cfg, extra_modules={"MC_GInterp.tla": mod}, workers=1, timeout=1200)
        chk.add_tlc(res)
        if res.violated:
            chk.violation(f"GInterp.tla invariant {res.violated} violated", {"state": res.stdout.split('\nState ')[-1][:800]})
            return
        require_tlc_ok(res, "GInterp")
        got = res.prints if rec == "FALSE" else [p for p in res.prints if "recompute" in p["qs"]]
        if len(got) < 50:
            raise MachineryError(f"GInterp generated too few {label} sequences")
        chk.note(f"ginterp_{label}_sequences", len(got))
        items += got
    drift = 0
    for it, r in zip(items, parallel_map(_ginterp_case, items, chunksize=16)):
        for b in r["bad"][:1]:
            chk.violation(f"C11 g_function_interpolation: {b}", {"case": it})
        if r["drift"]:
            drift += 1
            chk.note("ginterp_drift_sample", r["drift"])
    chk.traces += len(items)
    chk.note("ginterp_query_sequences_replayed", len(items))
    chk.note("ginterp_conformance_drift", drift)
