"""C06 C07 C08: HybridLoads.tla + Calendar.tla, replay (level A / level B), real traces (B2)."""
from __future__ import annotations

import os

from .core import Check, MachineryError, require_tlc_ok, run_tlc, tier
from .tla import tla, tla_set

FIXED = set(filter(None, os.environ.get("VERIF_FIXED_HYBRID", "F2,F9").split(",")))
HU = 2_000_000
PH = 2
DAYS = [31, 28, 31, 30, 31, 30, 31, 31, 30, 31, 30, 31]

INVS = {
    "C06": ["ConservesK"],
    "C07": ["PeaksOnlyInRetentionMonths", "NoPulseWithoutLoad", "PulsePresent", "DurationsInRangeK", "PulseLastsItsDuration", "CentredOnNoon"],
    "C08": ["MonthEndsPresent", "StrictlyIncreasingUnlessOverlapK", "SameDayAbutK", "RepeatsYearly"],
}


def input_classes(t: str):
    # 18 h: a window that fits into the first / last day of a month (noon +- 9 h), so strict ordering is demanded there
    durs = [2 * HU, 10 * HU, 18 * HU, 47 * HU, 48 * HU] if t == "thorough" else [2 * HU, 18 * HU, 47 * HU]
    days = [0, 14, 27]
    out = []
    for pkc in (0, 1):
        for pkh in (0, 1):
            for dayC in (days if pkc else [0]):
                for dayH in (days if pkh else [0]):
                    for dc in durs:
                        for dh in durs:
                            for wc in ((False, True) if not pkc else (False,)):
                                for wh in ((False, True) if not pkh else (False,)):
                                    out.append({"pkc": pkc, "pkh": pkh, "dayC": dayC, "dayH": dayH, "dc": dc, "dh": dh, "wc": wc, "wh": wh})
    return out


PLAIN = {"pkc": 1, "pkh": 1, "dayC": 9, "dayH": 19, "dc": 6 * HU, "dh": 4 * HU, "wc": False, "wh": False}


def horizons(t: str):
    if t == "thorough":
        return list(range(1, 41)) + [120, 240, 359, 360]
    return list(range(1, 15)) + [23, 24, 25, 26]


def mc(inputs, hz, fixed, leaps=(False, True)):
    mod = f"""---- MODULE MC_Hybrid ----
EXTENDS HybridLoads
c_Inputs == {tla_set(inputs)}
c_Plain == {tla(PLAIN)}
c_Horizons == {tla(set(hz))}
c_Fixed == {tla(set(fixed))}
c_Leaps == {tla(set(leaps))}
====
"""
    consts = """CONSTANTS
 Inputs <- c_Inputs
 Plain <- c_Plain
 Horizons <- c_Horizons
 Leaps <- c_Leaps
 Fixed <- c_Fixed
"""
    return mod, consts


def check_model(chk: Check, invs, fixed=None):
    fixed = FIXED if fixed is None else fixed
    t = tier()
    mod, consts = mc(input_classes(t), horizons(t), fixed)
    cfg = "INIT Init\nNEXT Next\nCHECK_DEADLOCK FALSE\nALIAS Alias\n" + consts + "".join(f"INVARIANT {i}\n" for i in invs)
    res = run_tlc("MC_Hybrid", cfg, extra_modules={"MC_Hybrid.tla": mod}, coverage=True, want_prints=False, timeout=3000)
    chk.add_tlc(res)
    chk.note("hybrid_model", {"inputs": len(input_classes(t)), "horizons": len(horizons(t)), "states": res.distinct})
    if res.violated:
        st = res.stdout.split("\nState ")[-1].split("\n\n")[0]
        return [{"invariant": res.violated, "state": st}]
    require_tlc_ok(res, "HybridLoads")
    # vacuity: the antecedent of StrictlyIncreasingUnlessOverlap is reachable
    if "StrictlyIncreasingUnlessOverlapK" in invs:
        cfg2 = "INIT Init\nNEXT Next\nCHECK_DEADLOCK FALSE\n" + consts + "INVARIANT SomeWindowsDisjoint\n"
        r2 = run_tlc("MC_Hybrid", cfg2, extra_modules={"MC_Hybrid.tla": mod}, want_prints=False, timeout=3000)
        if r2.violated != "SomeWindowsDisjoint":
            raise MachineryError("vacuity: WindowsDisjoint with both pulses never reachable")
    return []


# ------------------------------------------------------------------------------------------------
# replay of model behaviours into the real HybridLoad (level A: injected monthly arrays; level B: synthesised
# hourly profile through the real constructor with only perform_current_month_simulation stubbed)
# ------------------------------------------------------------------------------------------------
import math
import random
from fractions import Fraction

from .core import import_repo, parallel_map


def days_of(moy, leap=False):
    return 29 if (leap and moy == 2) else DAYS[moy - 1]


def month_start_h(m, leap=False):  # hours before month m (1-based, horizon month)
    return 24 * sum(days_of(((k - 1) % 12) + 1, leap) for k in range(1, m))


def eff_dur(pk, d, w, fixed):
    if pk > 0:
        return d
    return d if (w and "F9" not in fixed) else PH


def inp_of(line, m):
    return line["special"] if ((m - 1) % 12) + 1 == line["slot"] else line["plain"]


def _numbers(inp, moy):
    pkc = (50.0 + moy) if inp["pkc"] else 0.0
    pkh = (30.0 + moy) if inp["pkh"] else 0.0
    cl = (4000.0 + 16 * moy) if inp["pkc"] else 0.0
    hl = (3000.0 + 8 * moy) if inp["pkh"] else 0.0
    return pkc, pkh, cl, hl


def _new_hybrid(ghl, M, leap=False):
    import numpy as np  # noqa: PLC0415

    hl = ghl.HybridLoad.__new__(ghl.HybridLoad)
    hl.years = [2020] if leap else [2019]
    hl.start_month, hl.end_month = 1, M
    hl.peak_retain_start = hl.peak_retain_end = 12
    hl.load = np.array(0)
    hl.hour = np.array(0)
    hl.step_func_load = np.array(0)
    return hl


def classify_segments(hl, M, peaks, leap=False):
    """Split the code's arrays into months; -> list per month of (kind, end_rel_hu, load), or raises ValueError."""
    hours = [float(x) for x in hl.hour]
    loads = [float(x) for x in hl.load]
    if len(hours) < 2 or hours[0] != 0.0:
        raise ValueError("array does not start with the zero entry")
    segs = list(zip(hours[2:], loads[2:]))
    out = []
    pos = 0
    for m in range(1, M + 1):
        end = month_start_h(m + 1, leap)
        start = month_start_h(m, leap)
        cur = []
        pkc, pkh = peaks[m]
        while pos < len(segs):
            t, q = segs[pos]
            pos += 1
            kind = "pkc" if (pkc > 0 and q == pkc) else ("pkh" if (pkh > 0 and q == -pkh) else "avg")
            cur.append((kind, int(round((t - start) * HU)), q))
            if kind == "avg" and abs(t - end) < 1e-6:
                break
        out.append(cur)
    if pos != len(segs):
        raise ValueError("segments left after the last month end")
    return out, hours[1]


def direct_verdicts(months, zero_hour, line, M, fixed, totals):
    leap = bool(line.get("leap"))
    """Property predicates evaluated on the CODE's own arrays (no reference to the expected segments)."""
    v = {"Conserves": True, "PeaksOnlyInRetentionMonths": True, "NoPulseWithoutLoad": True, "PulsePresent": True,
         "DurationsInRange": True, "PulseLastsItsDuration": True, "CentredOnNoon": True, "MonthEndsPresent": True, "StartsAtZero": zero_hour == 0.0,
         "StrictlyIncreasingUnlessOverlap": True, "EndsAtHorizon": True}
    for m in range(1, M + 1):
        segs = months[m - 1]
        inp = inp_of(line, m)
        moy = ((m - 1) % 12) + 1
        ipf = m < 13 or m > M - 12
        pkc, pkh, cl, hl_ = totals[moy]
        ln = 24 * days_of(moy, leap) * HU
        if not segs or segs[-1][0] != "avg" or abs(segs[-1][1] - ln) > 2:
            v["MonthEndsPresent"] = False
            v["Conserves"] = False       # without the month-end breakpoint the month's integral cannot equal the month's load
            if m == M:
                v["EndsAtHorizon"] = False
            continue
        clamped = m == 1 and any(HU + d_ * 24 * HU + 12 * HU - du // 2 < 0 for d_, du in (
            (inp["dayC"] if inp["pkc"] else 0, eff_dur(inp["pkc"], inp["dc"], inp["wc"], fixed)),
            (inp["dayH"] if inp["pkh"] else 0, eff_dur(inp["pkh"], inp["dh"], inp["wh"], fixed))))
        # energy (exact rationals from the float values)
        e = Fraction(0)
        prev = 0
        lens = []
        for kind, end, q in segs:
            e += Fraction(q) * Fraction(end - prev, HU)
            lens.append((kind, prev, end))
            prev = end
        want = Fraction(cl) - Fraction(hl_)
        scale = max(abs(Fraction(cl)) + abs(Fraction(hl_)), Fraction(1))
        # absent peaks still carry the 1e-6 h placeholder duration in the divisor of the monthly rate: a legitimate
        # term of at most 2e-6 h x |monthly rate| on top of floating-point accuracy (1e-8 of the month's absolute energy)
        rate = max([abs(Fraction(q)) for k, _, q in segs if k == "avg"] or [Fraction(0)])
        f14 = clamped and ipf and pkc > 0 and pkh > 0 and inp["dayC"] == inp["dayH"]
        if abs(e - want) > scale * Fraction(1, 10**8) + rate * Fraction(2, 10**6):
            if f14:
                v["F14_seen"] = True     # the listed finding: clamped first-month pulse
            else:
                v["Conserves"] = False
        kinds = [k for k, _, _ in segs]
        if not ipf and any(k != "avg" for k in kinds):
            v["PeaksOnlyInRetentionMonths"] = False
        if (pkc == 0 and "pkc" in kinds) or (pkh == 0 and "pkh" in kinds):
            v["NoPulseWithoutLoad"] = False
        if ipf and ((pkc > 0 and kinds.count("pkc") != 1) or (pkh > 0 and kinds.count("pkh") != 1)):
            v["PulsePresent"] = False
        both_same = ipf and pkc > 0 and pkh > 0 and inp["dayC"] == inp["dayH"]
        for kind, a, b in lens:
            if kind == "avg":
                continue
            d = b - a
            if not (0 < d <= 48 * HU) and not f14:
                v["DurationsInRange"] = False
            day = inp["dayC"] if kind == "pkc" else inp["dayH"]
            noon = day * 24 * HU + 12 * HU
            if clamped:
                continue
            want_d = eff_dur(inp["pkc"], inp["dc"], inp["wc"], fixed) if kind == "pkc" else eff_dur(inp["pkh"], inp["dh"], inp["wh"], fixed)
            if abs(d - want_d) > 4:
                v["PulseLastsItsDuration"] = False
            if both_same:
                edge = b if kind == "pkc" else a
                if not (noon <= edge <= noon + HU):
                    v["CentredOnNoon"] = False
            elif not (0 <= (a - noon) + (b - noon) <= 2 * HU):
                v["CentredOnNoon"] = False
        # windows disjoint => strictly increasing
        win = []
        if ipf and pkc > 0:
            win.append((inp["dayC"] * 24 * HU + 13 * HU - inp["dc"] // 2, inp["dayC"] * 24 * HU + 13 * HU + inp["dc"] // 2))
        if ipf and pkh > 0:
            win.append((inp["dayH"] * 24 * HU + 13 * HU - inp["dh"] // 2, inp["dayH"] * 24 * HU + 13 * HU + inp["dh"] // 2))
        disjoint = all(0 < a and b < ln for a, b in win) and (len(win) < 2 or win[0][1] < win[1][0] or win[1][1] < win[0][0])
        if disjoint and not f14 and any(b - a <= 0 for _, a, b in lens):
            v["StrictlyIncreasingUnlessOverlap"] = False
    return v


def compare_months(line, months, fixed):
    mm = []
    for m, exp in enumerate(line["months"], start=1):
        got = months[m - 1] if m - 1 < len(months) else []
        if [k for k, _ in exp] != [k for k, _, _ in got]:
            mm.append(f"month {m}: kinds model {[k for k, _ in exp]} vs code {[k for k, _, _ in got]}")
            break
        for (k, e), (_, g, _q) in zip(exp, got):
            if abs(e - g) > 2:
                mm.append(f"month {m}: {k} end model {e} hu vs code {g} hu")
                break
        if mm:
            break
    return mm


def _level_a(line):
    fixed = FIXED
    import_repo()
    import warnings  # noqa: PLC0415

    import ghedesigner.ground_loads as ghl  # noqa: PLC0415

    M = line["M"]
    leap = bool(line.get("leap"))
    hl = _new_hybrid(ghl, M, leap)
    n = 13
    arr = {k: [0] * n for k in ("monthly_cl", "monthly_hl", "monthly_peak_cl", "monthly_peak_hl", "monthly_peak_cl_duration",
                               "monthly_peak_hl_duration", "monthly_peak_cl_day", "monthly_peak_hl_day")}
    totals = {}
    for moy in range(1, 13):
        inp = inp_of(line, moy)
        pkc, pkh, cl, h = _numbers(inp, moy)
        totals[moy] = (pkc, pkh, cl, h)
        arr["monthly_cl"][moy], arr["monthly_hl"][moy] = cl, h
        arr["monthly_peak_cl"][moy], arr["monthly_peak_hl"][moy] = pkc, pkh
        arr["monthly_peak_cl_duration"][moy] = eff_dur(inp["pkc"], inp["dc"], inp["wc"], fixed) / HU
        arr["monthly_peak_hl_duration"][moy] = eff_dur(inp["pkh"], inp["dh"], inp["wh"], fixed) / HU
        arr["monthly_peak_cl_day"][moy] = inp["dayC"] if inp["pkc"] else 0
        arr["monthly_peak_hl_day"][moy] = inp["dayH"] if inp["pkh"] else 0
    # the model's month duration must be what these effective durations give (binds the Python EffDur to TLC's)
    for m in range(1, M + 1):
        moy = ((m - 1) % 12) + 1
        ipf = m < 13 or m > M - 12
        d = 24 * days_of(moy, leap) * HU
        if ipf:
            d -= int(round(arr["monthly_peak_cl_duration"][moy] * HU)) + int(round(arr["monthly_peak_hl_duration"][moy] * HU))
        if d != line["mdur"][m - 1]:
            raise MachineryError(f"EffDur mirror disagrees with TLC for month {m}: {d} vs {line['mdur'][m - 1]}")
    for k, a in arr.items():
        setattr(hl, k, a)
    with warnings.catch_warnings():
        warnings.simplefilter("ignore")
        try:
            hl.process_month_loads()
        except Exception as e:  # noqa: BLE001 - no hybrid sequence exists for a legitimate horizon
            return {"mismatch": [], "verdict": {}, "raised": f"{type(e).__name__}: {e}"}
    return _finish(line, hl, M, totals, fixed)


def _finish(line, hl, M, totals, fixed):
    peaks = {m: totals[((m - 1) % 12) + 1][:2] for m in range(1, M + 1)}
    try:
        months, zero_hour = classify_segments(hl, M, peaks, bool(line.get("leap")))
    except ValueError as e:
        return {"mismatch": [f"time axis malformed: {e}"], "verdict": {"MonthEndsPresent": False, "EndsAtHorizon": False, "Conserves": False}}
    mm = compare_months(line, months, fixed)
    # replicated months carry the loads of month m-12 (C08 RepeatsYearly) - avg load of month m equals that of m-12 when flags agree
    ver = direct_verdicts(months, zero_hour, line, M, fixed, totals)
    rep = True
    for m in range(13, M + 1):
        a, b = months[m - 1], months[m - 13]
        ipf_a, ipf_b = (m < 13 or m > M - 12), (m - 12 < 13 or m - 12 > M - 12)
        if ipf_a == ipf_b and [(k, q) for k, e, q in a] != [(k, q) for k, e, q in b]:
            rep = False
    ver["RepeatsYearly"] = rep
    return {"mismatch": mm, "verdict": ver}


def synth_profile(line):
    """8760 (8784 in a leap year) hourly loads (W, extraction positive) realising the abstract monthly inputs."""
    leap = bool(line.get("leap"))
    nh = 8784 if leap else 8760
    prof = [0.0] * nh
    totals = {}
    for moy in range(1, 13):
        inp = inp_of(line, moy)
        s = month_start_h(moy, leap)
        pkc, pkh, _, _ = _numbers(inp, moy)
        # the hour of the day at which the peak occurs varies with the month: mid-day, the last hour (23:00-24:00) and the first
        hc = (12, 23, 0)[moy % 3]
        hh = (23, 13, 1)[moy % 3]
        if inp["pkc"]:
            prof[s + inp["dayC"] * 24 + hc] = -pkc * 1000.0
            for d in (2, 3, 4, 5, 6, 7, 10, 11, 12):
                for h in range(0, 12):
                    prof[s + d * 24 + 2 * h] = -(20.0 + h / 4.0) * 1000.0
        if inp["pkh"]:
            prof[s + inp["dayH"] * 24 + hh] = pkh * 1000.0
            for d in (2, 3, 4, 5, 6, 7, 10, 11, 12):
                for h in range(0, 12):
                    prof[s + d * 24 + 2 * h + 1] = (15.0 + h / 4.0) * 1000.0
    # windows of zero-peak months that must see load: last day of the previous month
    for moy in range(1, 13):
        inp = inp_of(line, moy)
        prev_end = month_start_h(moy, leap) if moy > 1 else nh
        if not inp["pkc"] and inp["wc"]:
            prof[prev_end - 24 + 4] = -(7.0 + moy / 16.0) * 1000.0
        if not inp["pkh"] and inp["wh"]:
            prof[prev_end - 24 + 5] = (6.0 + moy / 16.0) * 1000.0
    for moy in range(1, 13):
        s, e = month_start_h(moy, leap), month_start_h(moy + 1, leap)
        rej = [-x / 1000.0 for x in prof[s:e] if x < 0]
        ext = [x / 1000.0 for x in prof[s:e] if x >= 0]
        totals[moy] = (max(rej) if rej else 0.0, max(ext) if ext else 0.0, sum(rej), sum(ext))
    return prof, totals


def _level_b(line):
    fixed = FIXED
    import_repo()
    import warnings  # noqa: PLC0415
    from types import SimpleNamespace  # noqa: PLC0415

    import ghedesigner.ground_loads as ghl  # noqa: PLC0415

    M = line["M"]
    prof, totals = synth_profile(line)
    # a zero-peak month whose window must stay empty needs the previous month's last day empty: true by construction
    durs = {}
    for moy in range(1, 13):
        inp = inp_of(line, moy)
        pkc, pkh, _, _ = _numbers(inp, moy)
        durs[("c", round(pkc, 6))] = inp["dc"] / HU
        durs[("h", round(pkh, 6))] = inp["dh"] / HU
        durs[("c", round(7.0 + moy / 16.0, 6))] = inp["dc"] / HU
        durs[("h", round(6.0 + moy / 16.0, 6))] = inp["dh"] / HU

    calls = {"n": 0}

    def stub(self, two_day, peak_load, avg_load, pk_list, nm_list):
        calls["n"] += 1
        kind = "c" if pk_list is self.two_day_fluid_temps_cl_pk else "h"
        pk_list.append([0.0])
        nm_list.append([0.0])
        d = durs.get((kind, round(peak_load, 6)))
        if d is None:
            d = 3.0
        return d, None, None

    real = ghl.HybridLoad.perform_current_month_simulation
    ghl.HybridLoad.perform_current_month_simulation = stub
    try:
        sp = SimpleNamespace(start_month=1, end_month=M)
        with warnings.catch_warnings():
            warnings.simplefilter("ignore")
            hl = ghl.HybridLoad(prof, None, None, sp, years=[2020] if line.get("leap") else [2019])
    except Exception as e:  # noqa: BLE001 - no hybrid sequence exists for a legitimate horizon
        return {"mismatch": [], "verdict": {}, "raised": f"{type(e).__name__}: {e}"}
    finally:
        ghl.HybridLoad.perform_current_month_simulation = real
    # peak days / peaks / totals the real constructor derived must be the abstract inputs
    mm = []
    for moy in range(1, 13):
        inp = inp_of(line, moy)
        if inp["pkc"] and hl.monthly_peak_cl_day[moy] != inp["dayC"]:
            mm.append(f"month {moy}: cooling peak day {hl.monthly_peak_cl_day[moy]} vs {inp['dayC']}")
        if inp["pkh"] and hl.monthly_peak_hl_day[moy] != inp["dayH"]:
            mm.append(f"month {moy}: heating peak day {hl.monthly_peak_hl_day[moy]} vs {inp['dayH']}")
    r = _finish(line, hl, M, totals, fixed)
    r["mismatch"] = mm + r["mismatch"]
    return r


def generate_lines(chk: Check, fixed, t):
    mod, consts = mc(input_classes(t), horizons(t), fixed)
    cfg = "INIT Init\nNEXT Next\nCHECK_DEADLOCK FALSE\n" + consts + "INVARIANT EmitGen\nCONSTRAINT NoSteps\n"
    mod = mod.replace("====", "NoSteps == i = 0\n====")
    res = run_tlc("MC_Hybrid", cfg, extra_modules={"MC_Hybrid.tla": mod}, workers=1, timeout=3000)
    require_tlc_ok(res, "HybridLoads gen")
    chk.add_tlc(res)
    return res.prints


def replay(chk: Check, invs, fixed=None):
    fixed = FIXED if fixed is None else fixed
    t = tier()
    rnd = random.Random(chk.seed)
    lines = generate_lines(chk, fixed, t)
    if not lines:
        raise MachineryError("hybrid generator printed nothing")
    cap_a, cap_b = (3000, 600) if t == "quick" else (40000, 6000)
    la = lines if len(lines) <= cap_a else rnd.sample(lines, cap_a)
    # the recorded inputs of the listed finding F14 are always part of the replay (first month, both peaks on day 0, 47 h duration)
    f14 = [l for l in lines if l["slot"] == 1 and l["M"] in (1, 13) and l["special"]["pkc"] and l["special"]["pkh"] and l["special"]["dayC"] == 0
           and l["special"]["dayH"] == 0 and max(l["special"]["dc"], l["special"]["dh"]) > 26 * HU][:6]
    la = la + [l for l in f14 if l not in la]
    lb_pool = [l for l in lines if l["M"] in (13, 25, 14, 26, 40, 360)]
    lb = lb_pool if len(lb_pool) <= cap_b else rnd.sample(lb_pool, cap_b)
    viol, drift = [], []
    names = [i.rstrip("K") if i.endswith("K") else i for i in invs]
    for level, fn, batch in (("A", _level_a, la), ("B", _level_b, lb)):
        res = parallel_map(fn, batch, chunksize=32)
        for line, r in zip(batch, res):
            chk.nontrivial.add((line["special"]["pkc"], line["special"]["pkh"], line["special"]["dayC"], line["special"]["dayH"],
                                line["special"]["dc"], line["special"]["dh"], line["special"]["wc"], line["special"]["wh"], line["M"] > 24))
            falses = [n for n in names if r["verdict"].get(n) is False]
            if r.get("raised"):
                falses = [f"a hybrid sequence for this horizon (construction raised {r['raised']})"]
            if r["verdict"].get("F14_seen"):
                chk.violation("F14 on real code", None, known_key="F14")
            info = {"level": level, "M": line["M"], "slot": line["slot"], "special": line["special"], "mismatch": r["mismatch"], "false": falses}
            if falses:
                viol.append(info)
            elif r["mismatch"]:
                drift.append(info)
        chk.traces += len(batch)
        chk.evaluations += len(batch)
        chk.note(f"replayed_level_{level}", len(batch))
    chk.sample({"M": la[0]["M"], "slot": la[0]["slot"], "special": la[0]["special"], "month1_segments": la[0]["months"][0]})
    return viol, drift


def two_day_windows(chk: Check):
    """C07: the 48-hour profile handed to the peak-duration simulation is the day before + the day of the peak, from the array of the
    SAME load direction, wrapping to 31 December for a 1 January peak. Calendar.tla gives the index windows; the real
    process_two_day_loads runs on identity profiles (value = 10000 + hour for rejection, 20000 + hour for extraction)."""
    from .p_calendar import cal_cfg  # noqa: PLC0415
    from .p_polygon import tab  # noqa: PLC0415

    res = run_tlc("Calendar", cal_cfg(12, 0, 1, 0, ["WindowOK"]), want_prints=False)
    chk.add_tlc(res)
    if res.violated:
        chk.violation("Calendar.tla invariant WindowOK violated", {})
        return
    require_tlc_ok(res, "Calendar windows")
    res = run_tlc("Calendar", cal_cfg(12, 0, 1, 0, [], ["EmitWindows"]), workers=1)
    require_tlc_ok(res, "Calendar windows gen")
    rows = {p["m"]: (tab(p["first"]), tab(p["last"])) for p in res.prints if p.get("t") == "window"}
    if len(rows) != 12:
        raise MachineryError("window tables incomplete")
    import_repo()
    import ghedesigner.ground_loads as ghl  # noqa: PLC0415

    n = 0
    for which in ("cl", "hl"):
        for m in range(1, 13):
            for d in range(DAYS[m - 1]):
                hl = ghl.HybridLoad.__new__(ghl.HybridLoad)
                hl.hourly_rejection_loads = [10000.0 + h for h in range(8760)]
                hl.hourly_extraction_loads = [20000.0 + h for h in range(8760)]
                hl.days_in_month = [0] + DAYS
                hl.monthly_peak_cl_day = [0] * 13
                hl.monthly_peak_hl_day = [0] * 13
                (hl.monthly_peak_cl_day if which == "cl" else hl.monthly_peak_hl_day)[m] = d
                hl.two_day_hourly_peak_cl_loads = [[0]]
                hl.two_day_hourly_peak_hl_loads = [[0]]
                hl.process_two_day_loads()
                w = (hl.two_day_hourly_peak_cl_loads if which == "cl" else hl.two_day_hourly_peak_hl_loads)[m]
                base = 10000.0 if which == "cl" else 20000.0
                first, last = rows[m][0][d], rows[m][1][d]
                want = [base + ((first + j) % 8760) for j in range(48)]
                n += 1
                if list(w) != want or want[-1] != base + last:
                    chk.violation(f"C07: two-day profile of the {'rejection' if which == 'cl' else 'extraction'} peak on day {d} of month {m} is not the 48 hours ending with the peak day "
                                  f"(got {list(w)[:3]}..{list(w)[-2:]}, expected {want[:3]}..{want[-2:]})", {"month": m, "day": d, "direction": which})
                    return
    chk.traces += n
    chk.evaluations += n
    chk.note("two_day_windows_replayed", n)


def _duration_case(seed):
    """C07 last clause (Cullin & Spitler): duration = time after which a constant (peak - average) load changes the fluid temperature as much as the
    peak-scaled two-day profile does at its maximum - judged by the spec-bound superposition reference (p_numeric.eft_ref)."""
    import warnings  # noqa: PLC0415

    import numpy as np  # noqa: PLC0415
    from scipy.interpolate import interp1d  # noqa: PLC0415

    from .p_numeric import _mk_real_ghe, eft_ref  # noqa: PLC0415

    import_repo()
    from ghedesigner.constants import TWO_PI  # noqa: PLC0415

    rnd = random.Random(seed)
    bad = []
    n = 0
    with warnings.catch_warnings():
        warnings.simplefilter("ignore")
        g = _mk_real_ghe(1, 2, rnd.choice([70.0, 100.0, 130.0]), soil_k=rnd.choice([1.6, 2.4, 3.1]), pipe=rnd.choice(["single", "double"]))
        hl = g.hybrid_load
        ts = hl.radial_numerical.t_s
        gsts = hl.radial_numerical.g_sts
        rb = hl.bhe.calc_effective_borehole_resistance()
        tpk = TWO_PI * hl.bhe.soil.k
        for _ in range(12):
            shape = rnd.choice(["spike", "plateau", "ramp", "noisy"])
            w = [0.0] * 48
            pk = rnd.uniform(5, 60)
            if shape == "spike":
                w[rnd.randrange(24, 48)] = pk
                for i in range(48):
                    w[i] = max(w[i], rnd.uniform(0, 0.3) * pk)
            elif shape == "plateau":
                a = rnd.randrange(20, 40)
                for i in range(a, min(48, a + rnd.randrange(2, 12))):
                    w[i] = pk
            elif shape == "ramp":
                w = [pk * i / 47.0 for i in range(48)]
            else:
                w = [rnd.uniform(0, 1) * pk for _ in range(48)]
                w[rnd.randrange(24, 48)] = pk
            avg = rnd.uniform(0.05, 0.6) * pk
            two_day = [0.0] + w
            d_code, _, _ = hl.perform_current_month_simulation(two_day, pk, avg, [], [])
            # reference from the property text
            t = np.arange(1, 49, dtype=float)
            q_peak = np.full(48, pk - avg)
            q_nom = np.array([(two_day[i] - avg) / pk * two_day[i] for i in range(1, 49)])
            dt_peak = np.concatenate(([0.0], eft_ref(q_peak, t, gsts, ts, tpk, 1.0, 1, 0.0, rb, 1e300, 1.0)))
            dt_nom = np.concatenate(([0.0], eft_ref(q_nom, t, gsts, ts, tpk, 1.0, 1, 0.0, rb, 1e300, 1.0)))
            mx = float(dt_nom.max())
            d_ref = float(interp1d(dt_peak, np.arange(49, dtype=float), fill_value="extrapolate")(mx)) if mx > 0 else 1e-6
            n += 1
            if abs(d_code - d_ref) > 1e-6 * max(1.0, abs(d_ref)):
                bad.append(f"peak duration {d_code!r} h, the Cullin-Spitler definition gives {d_ref!r} h (shape {shape}, peak {pk:.3f}, average {avg:.3f})")
            if mx > 0 and not (0 < d_code):
                bad.append(f"peak duration {d_code!r} h is not positive (shape {shape})")
    return n, bad


def _real_profile(rnd):
    """Hourly ground loads (W, extraction positive) of one non-leap year with a day/night shape, a seasonal swing, and 'weather events':
    single-day snaps placed on the LAST day of a month (so the next month's two-day window can see a larger load than its own peak when
    its peak falls on day 0), on first days, and months without one direction."""
    import math  # noqa: PLC0415

    kind = rnd.choice(["mixed", "mixed", "heating", "cooling"])
    amp_h, amp_c = rnd.uniform(8e3, 40e3), rnd.uniform(8e3, 40e3)
    prof = [0.0] * 8760
    for h in range(8760):
        season = math.cos(2 * math.pi * h / 8760.0)           # +1 mid-winter
        day = 0.5 + 0.5 * math.cos(2 * math.pi * ((h % 24) - 15) / 24.0)
        x = 0.0
        if kind in ("mixed", "heating") and season > -0.3:
            x += amp_h * (season + 0.3) / 1.3 * (1.0 - 0.5 * day) * rnd.uniform(0.7, 1.0)
        if kind in ("mixed", "cooling") and season < 0.3:
            x -= amp_c * (0.3 - season) / 1.3 * (0.4 + 0.6 * day) * rnd.uniform(0.7, 1.0)
        prof[h] = x
    events = []
    for _ in range(rnd.randrange(2, 6)):
        m = rnd.randrange(2, 13)                               # month whose day 0 carries that month's peak
        direction = rnd.choice([1, -1])
        s = month_start_h(m)
        mx_prev = max(abs(v) for v in prof[s - 24 * days_of(m - 1):s]) + 1.0
        base = max(max(direction * v for v in prof[s:month_start_h(m + 1)]), 2e3)
        # month m: peak on day 0; previous month's last day: an even larger load of the same direction
        prof[s + rnd.randrange(6, 20)] = direction * base * 1.25
        prof[s - 24 + rnd.randrange(4, 22)] = direction * max(base * rnd.uniform(1.6, 2.4), mx_prev)
        events.append((m, direction))
    if rnd.random() < 0.5:
        # a 30-hour rejection plateau followed directly by a 30-hour extraction plateau: peaks on adjacent days whose (long) pulses overlap
        m = rnd.randrange(2, 12)
        s0 = month_start_h(m) + rnd.randrange(5, 20) * 24 + 6
        top = max(abs(v) for v in prof[month_start_h(m):month_start_h(m + 1)]) + 1.0
        order = rnd.choice([(-1, 1), (1, -1)])
        for h in range(30):                     # slowly rising plateaus: the hourly peak is the LAST hour, so the 48 h window sees the whole plateau
            prof[s0 + h] = order[0] * 1.3 * top * (1.0 + 1e-6 * h)
            prof[s0 + 30 + h] = order[1] * 1.2 * top * (1.0 + 1e-6 * h)
        events.append((m, "plateaus"))
    if rnd.random() < 0.4:                                     # a month with no load at all
        m = rnd.randrange(3, 12)
        for h in range(month_start_h(m), month_start_h(m + 1)):
            prof[h] = 0.0
    return prof, kind, events


def _real_profile_case(seed):
    """B2 for C06-C08 on REAL hourly profiles with the REAL peak-duration physics: the constructor's arrays are judged against quantities
    computed here from the hourly profile alone."""
    import warnings  # noqa: PLC0415
    from types import SimpleNamespace  # noqa: PLC0415

    import numpy as np  # noqa: PLC0415
    from scipy.interpolate import interp1d  # noqa: PLC0415

    from .p_numeric import _mk_real_ghe, eft_ref  # noqa: PLC0415

    import_repo()
    import ghedesigner.ground_loads as ghl  # noqa: PLC0415
    from ghedesigner.constants import TWO_PI  # noqa: PLC0415

    rnd = random.Random(seed)
    out = {"C06": [], "C07": [], "C08": [], "n": 0, "cross_month": 0}
    with warnings.catch_warnings():
        warnings.simplefilter("ignore")
        g = _mk_real_ghe(1, 2, rnd.choice([70.0, 100.0, 130.0]), soil_k=rnd.choice([1.6, 2.4, 3.1]), pipe=rnd.choice(["single", "double"]))
        h0 = g.hybrid_load
        ts, gsts = h0.radial_numerical.t_s, h0.radial_numerical.g_sts
        rb = h0.bhe.calc_effective_borehole_resistance()
        tpk = TWO_PI * h0.bhe.soil.k
        for _ in range(3):
            prof, kind, events = _real_profile(rnd)
            M = rnd.choice([12, 24, 30, 36])
            try:
                hl = ghl.HybridLoad(list(prof), h0.bhe, h0.radial_numerical, SimpleNamespace(start_month=1, end_month=M))
            except Exception as ex:  # noqa: BLE001
                out["C07"].append(f"HybridLoad raised {type(ex).__name__}: {ex} ({kind} profile, events {events})")
                continue
            out["n"] += 1
            rej = [max(-x, 0.0) / 1000.0 for x in prof]
            ext = [max(x, 0.0) / 1000.0 for x in prof]
            per = {}
            for moy in range(1, 13):
                s, e = month_start_h(moy), month_start_h(moy + 1)
                for name, arr, durs in (("rejection", rej, hl.monthly_peak_cl_duration), ("extraction", ext, hl.monthly_peak_hl_duration)):
                    seg = arr[s:e]
                    pk, tot = max(seg), sum(seg)
                    avg = tot / len(seg)
                    day = seg.index(pk) // 24
                    per[(moy, name)] = (pk, tot, day)
                    d_code = float(durs[moy])
                    if pk == 0.0:
                        continue
                    end = s + (day + 1) * 24
                    two_day = [0.0] + [arr[(end - 48 + j) % 8760] for j in range(48)]
                    mx2 = max(two_day)
                    if mx2 > pk + 0.1:
                        out["cross_month"] += 1
                    scale_pk = mx2 if mx2 > pk + 0.1 else pk
                    t = np.arange(1, 49, dtype=float)
                    q_peak = np.full(48, scale_pk - avg)
                    q_nom = np.array([(two_day[i] - avg) / scale_pk * two_day[i] for i in range(1, 49)])
                    dt_peak = np.concatenate(([0.0], eft_ref(q_peak, t, gsts, ts, tpk, 1.0, 1, 0.0, rb, 1e300, 1.0)))
                    dt_nom = np.concatenate(([0.0], eft_ref(q_nom, t, gsts, ts, tpk, 1.0, 1, 0.0, rb, 1e300, 1.0)))
                    mx = float(dt_nom.max())
                    d_ref = float(interp1d(dt_peak, np.arange(49, dtype=float), fill_value="extrapolate")(mx)) if mx > 0 else 1e-6
                    where = f"{name} peak of month {moy} (day {day}, {pk:.3f} kW; the two-day window peaks at {mx2:.3f} kW; {kind} profile)"
                    if not (0.0 < d_code <= 48.0 + 1e-9):
                        out["C07"].append(f"peak duration {d_code!r} h is outside (0, 48] for the {where}")
                    elif abs(d_code - d_ref) > 1e-6 * max(1.0, abs(d_ref)):
                        out["C07"].append(f"peak duration {d_code!r} h, the Cullin-Spitler definition gives {d_ref!r} h for the {where}")
            # the sequence itself
            hours = [float(x) for x in hl.hour]
            loads = [float(x) for x in hl.load]
            if len(hours) < 3 or hours[0] != 0.0 or hours[1] != 0.0:
                out["C08"].append(f"the hybrid axis does not start at hour 0 ({hours[:3]})")
                continue
            if abs(hours[-1] - month_start_h(M + 1)) > 1e-9:
                out["C08"].append(f"the hybrid axis ends at hour {hours[-1]!r}, the {M}-month horizon ends at {month_start_h(M + 1)}")
            pos = 2
            for m in range(1, M + 1):
                moy = ((m - 1) % 12) + 1
                e_h = month_start_h(m + 1)
                energy, prev, vals, closed = 0.0, float(month_start_h(m)), [], False
                ends = []
                ok_order = True
                while pos < len(hours):
                    t_, q = hours[pos], loads[pos]
                    pos += 1
                    energy += q * (t_ - prev)
                    ok_order = ok_order and t_ > prev
                    prev = t_
                    vals.append(q)
                    ends.append(t_)
                    if abs(t_ - e_h) < 1e-6 and len(vals) >= 1 and (pos == len(hours) or hours[pos] > e_h - 1e-6):
                        closed = True
                        break
                if not closed:
                    out["C08"].append(f"no breakpoint at the end of month {m} (hour {e_h}) of a {M}-month horizon ({kind} profile)")
                    break
                pkc, totc, dayc = per[(moy, "rejection")]
                pkh, toth, dayh = per[(moy, "extraction")]
                ipf = m < 13 or m > M - 12
                first_clamped = m == 1 and (dayc <= 1 or dayh <= 1)
                want = totc - toth
                rate = max(abs(v) for v in vals)
                if abs(energy - want) > 1e-8 * max(abs(totc) + abs(toth), 1.0) + 2e-6 * rate and not first_clamped:
                    out["C06"].append(f"month {m} of {M}: the hybrid sequence integrates to {energy!r} kWh, the hourly profile to {want!r} kWh ({kind} profile)")
                for pk, sign, name, durs in ((pkc, 1.0, "rejection", hl.monthly_peak_cl_duration), (pkh, -1.0, "extraction", hl.monthly_peak_hl_duration)):
                    has = any(v == sign * pk for v in vals) if pk > 0 else False
                    if ipf and pk > 0 and not has:
                        out["C07"].append(f"month {m} of {M} has no pulse of its {name} peak {pk!r} kW (loads {vals})")
                    if ipf and pk > 0 and has and not first_clamped and vals.count(sign * pk) == 1:
                        k = vals.index(sign * pk)
                        length = ends[k] - (ends[k - 1] if k > 0 else float(month_start_h(m)))
                        if abs(length - float(durs[moy])) > 1e-6:
                            out["C07"].append(f"month {m} of {M}: the {name} pulse lasts {length!r} h, the month's computed peak duration is {float(durs[moy])!r} h")
                if not ipf and len(vals) != 1:
                    out["C07"].append(f"month {m} of {M} lies between the peak-retention years and carries {len(vals)} segments")
    return out


def real_profiles(chk: Check, pid: str):
    seeds = [chk.seed * 29 + i for i in range(16 if tier() == "quick" else 160)]
    n = cross = 0
    for r in parallel_map(_real_profile_case, seeds):
        n += r["n"]
        cross += r["cross_month"]
        for b in r[pid][:2]:
            chk.violation(f"{pid} (real hourly profile, real peak-duration physics): {b}", {})
    chk.note("real_profiles_through_real_HybridLoad", n)
    chk.note("real_profiles_cross_month_windows", cross)
    chk.traces += n
    chk.evaluations += n


def peak_scale(chk: Check):
    """C07 (duration <= 48 h rests on it): PeakScale.tla enumerates (monthly peak, window maximum) per direction around the 0.1 kW
    tolerance; the real find_peak_durations is replayed on every case with the 48 h simulation stubbed to record its arguments."""
    cfg = ("SPECIFICATION Spec\nCHECK_DEADLOCK FALSE\nCONSTANTS\n Peaks = {0, 500, 1200}\n Excess = {0, 5, 9, 11, 100, 700}\n Tol = 10\n"
           "INVARIANT TypeOK\nINVARIANT ScaleCoversWindow\nINVARIANT ScaleOwnDirection\nINVARIANT NoSimWithoutLoad\nPROPERTY Terminates\n")
    res = run_tlc("PeakScale", cfg, want_prints=False)
    chk.add_tlc(res)
    if res.violated:
        chk.violation(f"PeakScale.tla invariant {res.violated} violated", {})
        return
    require_tlc_ok(res, "PeakScale")
    res = run_tlc("PeakScale", cfg.replace("PROPERTY Terminates\n", "INVARIANT Emit\n"), workers=1)
    require_tlc_ok(res, "PeakScale gen")
    rows = [p for p in res.prints if p.get("t") == "scale"]
    if len(rows) != 3 * 3 * 6 * 6:
        raise MachineryError(f"PeakScale: {len(rows)} cases")
    import_repo()
    import ghedesigner.ground_loads as ghl  # noqa: PLC0415

    n = 0
    real = ghl.HybridLoad.perform_current_month_simulation
    try:
        for r in rows:
            calls = []

            def stub(self, two_day, peak_load, avg_load, pk_list, nm_list, calls=calls):
                calls.append(("rej" if pk_list is self.two_day_fluid_temps_cl_pk else "ext", peak_load, max(two_day)))
                return 3.0, None, None

            ghl.HybridLoad.perform_current_month_simulation = stub
            hl = ghl.HybridLoad.__new__(ghl.HybridLoad)
            hl.days_in_month = [0, 31]
            pkc, mxc, pkh, mxh = (r[k] / 100.0 for k in ("pkc", "mxc", "pkh", "mxh"))
            hl.monthly_peak_cl, hl.monthly_peak_hl = [0, pkc], [0, pkh]
            hl.monthly_avg_cl, hl.monthly_avg_hl = [0, pkc / 4.0], [0, pkh / 4.0]
            wc, wh = [0.0] * 48, [0.0] * 48
            wc[30], wh[31] = pkc, pkh
            wc[7], wh[9] = max(wc[7], mxc if mxc > pkc else 0.0), max(wh[9], mxh if mxh > pkh else 0.0)
            hl.two_day_hourly_peak_cl_loads, hl.two_day_hourly_peak_hl_loads = [[0], wc], [[0], wh]
            hl.two_day_fluid_temps_cl_nm, hl.two_day_fluid_temps_cl_pk = [[0]], [[0]]
            hl.two_day_fluid_temps_hl_nm, hl.two_day_fluid_temps_hl_pk = [[0]], [[0]]
            hl.monthly_peak_cl_duration, hl.monthly_peak_hl_duration = [0, 0], [0, 0]
            hl.find_peak_durations()
            n += 1
            got = {d: p for d, p, _ in calls}
            want = {d: r[k] / 100.0 for d, k in (("rej", "sc"), ("ext", "sh")) if r[k] != 0}
            where = f"rejection peak {pkc} kW (window max {mxc}), extraction peak {pkh} kW (window max {mxh})"
            if [d for d, _, _ in calls] != list(r["order"]):
                chk.violation(f"C07: 48 h simulations run for {[d for d, _, _ in calls]}, PeakScale.tla expects {list(r['order'])}: {where}", r)
                break
            for d, p, mx2 in calls:
                if not (p > mx2 - 0.1 and p in ((pkc, mxc) if d == "rej" else (pkh, mxh))):
                    chk.violation(f"C07: the {d} two-day profile is scaled by {p} kW, which does not cover its window / is not that direction's peak: {where}", r)
                    return
            if got != want:
                print(f"NOTE: peak scale differs from PeakScale.tla although it covers the window: {got} vs {want}: {where}")
            for d, durs in (("rej", hl.monthly_peak_cl_duration), ("ext", hl.monthly_peak_hl_duration)):
                if (r["pkc" if d == "rej" else "pkh"] == 0) != (durs[1] == 1.0e-6):
                    chk.violation(f"C07: direction {d} duration {durs[1]} h: a month without load in a direction gets the 1e-6 h placeholder and no simulation: {where}", r)
                    return
    finally:
        ghl.HybridLoad.perform_current_month_simulation = real
    chk.traces += n
    chk.evaluations += n
    chk.note("peak_scale_cases_replayed", n)


def duration_definition(chk: Check):
    seeds = [chk.seed * 17 + i for i in range(8 if tier() == "quick" else 64)]
    tot = 0
    for n, bad in parallel_map(_duration_case, seeds):
        tot += n
        for b in bad[:2]:
            chk.violation(f"C07: {b}", {})
    chk.note("peak_durations_judged_against_definition", tot)
    chk.evaluations += tot


def run(pid: str) -> int:
    chk = Check(pid)
    chk.rule = ("TLC enumerates (horizon, month-of-year slot, month input class: peaks present/absent x peak days first/middle/last x "
                "duration classes x window flags); every month of every case is checked in the model and the real process_month_loads / "
                "HybridLoad constructor is replayed on the same cases; distinct = input class x long/short horizon")
    chk.trusted = ["level B stubs HybridLoad.perform_current_month_simulation (returns the class duration)", "TLC 1.8.0"]
    found = check_model(chk, INVS[pid])
    for f in found:
        chk.violation(f"HybridLoads.tla invariant {f['invariant']} violated", f)
    if pid == "C08":
        from .p_calendar import month_helpers  # noqa: PLC0415

        month_helpers(chk)
    if pid == "C07":
        two_day_windows(chk)
        peak_scale(chk)
        duration_definition(chk)
    real_profiles(chk, pid)
    # is the listed finding F14 still present on the model?  (a violated F14Present means it is)
    t = tier()
    mod, consts = mc(input_classes(t), horizons(t), FIXED)
    r14 = run_tlc("MC_Hybrid", "INIT Init\nNEXT Next\nCHECK_DEADLOCK FALSE\n" + consts + "INVARIANT F14Present\n",
                  extra_modules={"MC_Hybrid.tla": mod}, want_prints=False, timeout=3000)
    chk.note("F14_present_on_model", r14.violated == "F14Present")
    viol, drift = replay(chk, INVS[pid])
    for v in viol[:10]:
        chk.violation(f"{pid}: real hybrid loads violate {v['false']} (level {v['level']}, M={v['M']}, slot={v['slot']}, input {v['special']})", v)
    chk.note("conformance_drift", len(drift))
    if drift:
        chk.note("conformance_drift_sample", drift[0])
        print(f"NOTE: {len(drift)} replayed case(s) differ from the model's segments although {pid}'s predicates hold on the code's own arrays (first: {drift[0]['mismatch'][:1]})")
    chk.exhaustive = True
    return chk.finish()
