"""Harness core: repository loader, TLC runner, evidence writer, known-findings reader.

Exit-code convention of every check: 0 held, 1 violation (VIOLATION line printed), 2 machinery failure.
"""
from __future__ import annotations

import json
import os
import re
import shutil
import subprocess
import sys
import tempfile
import time
from dataclasses import dataclass, field
from pathlib import Path

VERIF = Path(__file__).resolve().parent.parent
SPEC = VERIF / "spec"
BUILD = VERIF / "build"
EVID = VERIF / "evidence"
REPO = Path(os.environ.get("VERIF_REPO", "/repo")).resolve()
NCPU = os.cpu_count() or 4


class MachineryError(Exception):
    """Something in the verification machinery (not the code under test) is broken -> exit 2."""


def tier() -> str:
    t = os.environ.get("VERIF_TIER", "quick")
    return t if t in ("quick", "thorough") else "quick"


def seed() -> int:
    try:
        return int(os.environ.get("VERIF_SEED", "0"))
    except ValueError:
        return 0


# ------------------------------------------------------------------------------------------------
# repository loader
# ------------------------------------------------------------------------------------------------
def import_repo():
    """Import ghedesigner from $VERIF_REPO (default /repo): checks always run the current tree."""
    p = str(REPO)
    if sys.path[0] != p:
        sys.path.insert(0, p)
    os.environ.setdefault("GHEDESIGNER_VERIF", "1")
    import ghedesigner  # noqa: PLC0415

    f = Path(ghedesigner.__file__).resolve()
    if not str(f).startswith(str(REPO)):
        raise MachineryError(f"ghedesigner imported from {f}, expected under {REPO}")
    return ghedesigner


def repo_fingerprint() -> str:
    import hashlib  # noqa: PLC0415

    h = hashlib.sha256()
    for f in sorted((REPO / "ghedesigner").rglob("*")):
        if f.is_file() and "tests" not in f.parts and f.suffix in (".py", ".json"):
            h.update(str(f.relative_to(REPO)).encode())
            h.update(f.read_bytes())
    return h.hexdigest()[:16]


# ------------------------------------------------------------------------------------------------
# TLC runner
# ------------------------------------------------------------------------------------------------
@dataclass
class TLCResult:
    ok: bool
    stdout: str
    generated: int = 0
    distinct: int = 0
    depth: int = 0
    violated: str | None = None  # name of violated invariant / property
    error: str | None = None
    prints: list = field(default_factory=list)  # decoded JSON values printed by PrintT(ToJson(..))
    coverage: dict = field(default_factory=dict)  # action name -> (distinct, taken)
    wall_s: float = 0.0
    cmd: str = ""


_STATS = re.compile(r"(\d+) states generated, (\d+) distinct states found")
_DEPTH = re.compile(r"depth of the complete state graph search is (\d+)")
_VIOL = re.compile(r"Error: (?:Invariant|Action property|Temporal properties?) ?(\S*) (?:is|were) violated")
_COV = re.compile(r"^<(\w+) line \d+, col \d+ to line \d+, col \d+ of module (\w+)>: (\d+):(\d+)", re.M)


def scratch(prefix: str) -> Path:
    BUILD.mkdir(exist_ok=True)
    return Path(tempfile.mkdtemp(prefix=prefix + "-", dir=BUILD))


def run_tlc(
    module: str,
    cfg: str,
    *,
    workers: int | str = "auto",
    extra_modules: dict[str, str] | None = None,
    simulate: str | None = None,
    depth: int | None = None,
    coverage: bool = False,
    timeout: int = 3600,
    env: dict | None = None,
    deque: bool = False,
    keep: bool = False,
    java_heap: str = "8g",
    want_prints: bool = True,
) -> TLCResult:
    """Run TLC on spec/<module>.tla with the given cfg text in a scratch copy of spec/."""
    d = scratch("tlc-" + module)
    try:
        for f in SPEC.glob("*.tla"):
            shutil.copy(f, d / f.name)
        for name, text in (extra_modules or {}).items():
            (d / name).write_text(text)
        (d / f"{module}.cfg").write_text(cfg)
        w = str(NCPU if workers == "auto" else workers)
        cmd = [
            "java",
            f"-Xmx{java_heap}",
            "-XX:+UseParallelGC",
        ]
        if deque:
            cmd.append("-Dtlc2.tool.queue.IStateQueue=StateDeque")
        cmd += [
            "-cp",
            "/opt/veriftools/tla/tla2tools.jar:/opt/veriftools/tla/CommunityModules-deps.jar",
            "tlc2.TLC",
            "-workers",
            w,
            "-metadir",
            str(d / "meta"),
            "-noGenerateSpecTE",
        ]
        if coverage:
            cmd += ["-coverage", "1"]
        if simulate:
            cmd += ["-simulate", simulate]
        if depth is not None:
            cmd += ["-depth", str(depth)]
        cmd += ["-config", f"{module}.cfg", f"{module}.tla"]
        e = dict(os.environ)
        e.pop("JAVA_TOOL_OPTIONS", None)
        if env:
            e.update(env)
        t0 = time.time()
        try:
            p = subprocess.run(cmd, cwd=d, capture_output=True, text=True, timeout=timeout, env=e, check=False)
            out = p.stdout + ("\n" + p.stderr if p.stderr.strip() else "")
            rc = p.returncode
        except subprocess.TimeoutExpired as ex:
            out = (ex.stdout or b"").decode() if isinstance(ex.stdout, bytes) else (ex.stdout or "")
            out += "\nTLC TIMEOUT"
            rc = -9
            subprocess.run(["pkill", "-f", str(d / "meta")], check=False)
        res = TLCResult(ok=False, stdout=out, wall_s=time.time() - t0, cmd=" ".join(cmd[cmd.index("tlc2.TLC"):]))
        m = None
        for m in _STATS.finditer(out):
            pass
        if m:
            res.generated, res.distinct = int(m.group(1)), int(m.group(2))
        m = _DEPTH.search(out)
        if m:
            res.depth = int(m.group(1))
        m = _VIOL.search(out)
        if m:
            res.violated = m.group(1) or "?"
        if "Error:" in out and not res.violated:
            i = out.index("Error:")
            res.error = out[i : i + 1500]
        if rc == -9:
            res.error = "timeout"
        if coverage:
            for m in _COV.finditer(out):
                res.coverage[m.group(1)] = (int(m.group(3)), int(m.group(4)))
        if want_prints:
            for line in out.splitlines():
                if line.startswith('"{') or line.startswith('"['):
                    try:
                        res.prints.append(json.loads(json.loads(line)))
                    except Exception:  # noqa: BLE001
                        pass
        res.ok = (
            res.violated is None
            and res.error is None
            and ("No error has been found" in out or (simulate is not None and rc in (0,)))
        )
        return res
    finally:
        if not keep:
            shutil.rmtree(d, ignore_errors=True)


def sany(module_path: Path) -> bool:
    p = subprocess.run(["tla-sany", str(module_path.name)], cwd=module_path.parent, capture_output=True, text=True, check=False)
    return "Semantic processing of module" in p.stdout and "error" not in p.stdout.lower().replace("errors: 0", "")


def require_tlc_ok(res: TLCResult, what: str):
    if not res.ok:
        tail = res.stdout[-3000:]
        raise MachineryError(f"TLC run '{what}' did not complete cleanly (violated={res.violated}, error={res.error}):\n{tail}")


def require_coverage(res: TLCResult, actions: list[str], what: str, allow_zero: tuple = ()):
    """Vacuity guard: every named action must have been taken at least once."""
    for a in actions:
        if a in allow_zero:
            continue
        c = res.coverage.get(a)
        if c is None or c[1] == 0:
            raise MachineryError(f"vacuity: action {a} never taken in '{what}' (coverage={res.coverage.get(a)})")


# ------------------------------------------------------------------------------------------------
# known findings
# ------------------------------------------------------------------------------------------------
@dataclass
class Finding:
    kind: str  # finding | fixed
    prop: str
    key: str
    text: str


def load_findings(prop: str | None = None) -> list[Finding]:
    out = []
    f = VERIF / "known_findings.txt"
    if not f.exists():
        return out
    for line in f.read_text().splitlines():
        line = line.strip()
        if not line or line.startswith("#"):
            continue
        m = re.match(r"(finding|fixed):\s+property=(C\d+)\s+(?:key=(\S+)\s+)?(.*)", line)
        if not m:
            continue
        fd = Finding(m.group(1), m.group(2), m.group(3) or "", m.group(4))
        if prop is None or fd.prop == prop:
            out.append(fd)
    return out


# ------------------------------------------------------------------------------------------------
# check context: collects counts, samples, violations and writes evidence
# ------------------------------------------------------------------------------------------------
class Check:
    def __init__(self, pid: str, level: str = "model_checking"):
        self.pid = pid
        self.level = level
        self.t0 = time.time()
        self.tier = tier()
        self.seed = seed()
        self.states = 0
        self.transitions = 0
        self.traces = 0
        self.evaluations = 0
        self.nontrivial: set = set()
        self.samples: list = []
        self.violations: list = []
        self.known_hits: dict[str, int] = {}
        self.assumptions: list[str] = []
        self.trusted: list[str] = []
        self.extra: dict = {}
        self.exhaustive = False
        self.rule = ""
        self.explanation = ""
        self.checker_cmds: list[str] = []
        self.findings = {f.key: f for f in load_findings(pid) if f.kind == "finding"}

    # -- bookkeeping -----------------------------------------------------------------------------
    def add_tlc(self, res: TLCResult):
        self.states += res.distinct
        self.transitions += res.generated
        if res.cmd:
            self.checker_cmds.append(res.cmd)

    def sample(self, s, cap: int = 6):
        if len(self.samples) < cap:
            self.samples.append(s)

    def note(self, key: str, value):
        self.extra[key] = value

    def count(self, key: str, n: int = 1):
        self.extra[key] = self.extra.get(key, 0) + n

    def violation(self, what: str, data=None, known_key: str | None = None):
        """Record a violation. If known_key names a listed finding it is a KNOWN-FINDING instead."""
        if known_key and known_key in self.findings:
            self.known_hits[known_key] = self.known_hits.get(known_key, 0) + 1
            return
        self.violations.append({"what": what, "data": data})

    # -- finish ----------------------------------------------------------------------------------
    def finish(self) -> int:
        wall = time.time() - self.t0
        cov = {
            "states": int(self.states),
            "transitions": int(self.transitions),
            "traces_validated_against_impl": int(self.traces),
            "samples": self.samples if self.samples else ["(no sample recorded)"],
            "evaluations": int(max(self.evaluations, 1)),
            "distinct_nontrivial": int(len(self.nontrivial)),
            "rule": self.rule,
            "exhaustive": bool(self.exhaustive),
            "trusted_base": self.trusted,
            "checker_cmd": "; ".join(self.checker_cmds[:4]),
            "explanation": self.explanation or self.rule,
            "repo": str(REPO),
            "repo_fingerprint": repo_fingerprint(),
            "known_findings_matched": self.known_hits,
        }
        cov.update(self.extra)
        ev = {
            "property_id": self.pid,
            "tier": self.tier,
            "seed": self.seed,
            "level": self.level,
            "coverage": cov,
            "assumptions": self.assumptions,
            "wall_s": round(wall, 2),
            "violations": len(self.violations),
        }
        EVID.mkdir(exist_ok=True)
        if os.environ.get("VERIF_NO_EVIDENCE") != "1":
            (EVID / f"{self.pid}.json").write_text(json.dumps(ev, indent=1, default=str) + "\n")
        for k, f in self.findings.items():
            if self.known_hits.get(k):
                print(f"KNOWN-FINDING: property={self.pid} {k} {f.text} (matched {self.known_hits[k]} case(s))")
        if self.violations:
            rd = BUILD / "replay"
            rd.mkdir(parents=True, exist_ok=True)
            for i, v in enumerate(self.violations[:20]):
                p = rd / f"{self.pid}-{i}.json"
                p.write_text(json.dumps(v, indent=1, default=str))
                print(f"VIOLATION property={self.pid} replay={p}")
                print(f"  what: {v['what']}")
            print(f"{self.pid}: {len(self.violations)} violation(s) [{wall:.1f}s]")
            return 1
        print(
            f"{self.pid}: OK tier={self.tier} states={self.states} transitions={self.transitions} "
            f"replayed/validated={self.traces} evaluations={self.evaluations} [{wall:.1f}s]"
        )
        return 0


def parallel_map(fn, items, procs: int | None = None, chunksize: int = 1):
    """Process-pool map that keeps order; fn must be a top-level function."""
    import multiprocessing as mp  # noqa: PLC0415

    procs = procs or NCPU
    if procs <= 1 or len(items) <= 1:
        return [fn(x) for x in items]
    from concurrent.futures import ProcessPoolExecutor  # noqa: PLC0415
    from concurrent.futures.process import BrokenProcessPool  # noqa: PLC0415

    ctx = mp.get_context("fork")
    # ProcessPoolExecutor, not mp.Pool: a worker killed by the kernel (out of memory) breaks the pool and
    # raises here, so the check ends as a machinery failure (exit 2) instead of waiting for ever.
    try:
        with ProcessPoolExecutor(max_workers=procs, mp_context=ctx) as pool:
            return list(pool.map(fn, items, chunksize=chunksize))
    except BrokenProcessPool as e:
        raise MachineryError(f"a pool worker died (killed / out of memory?): {e}") from e
